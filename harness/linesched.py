"""Threads under a deterministic scheduler at the grain of one source line of the library.

The threads of one run never execute at the same time: every thread carries a trace function
that, at each `line` event inside a file of the jsonpath package, hands control back to the
scheduler, and the scheduler lets exactly one thread continue for a burst of lines.  A schedule
is a list of (thread, lines) bursts - produced by TLC from MC_Threads.tla - so a pre-emptive
interleaving of several evaluations is an input that can be enumerated and replayed, not an
accident of the operating system.  A burst ends early when its thread finishes; when the
schedule is exhausted the threads run to completion one after the other.
"""
from __future__ import annotations

import os
import sys
import threading
from typing import Any, Callable, List, Optional, Sequence, Tuple

INF = 1 << 60


def _pkg_dir() -> str:
    import jsonpath

    return os.path.dirname(os.path.abspath(jsonpath.__file__)) + os.sep


class Run:
    def __init__(self, fns: Sequence[Callable[[], Any]]) -> None:
        self.fns = list(fns)
        n = len(self.fns)
        self.pkg = _pkg_dir()
        self.go = [threading.Semaphore(0) for _ in range(n)]
        self.back = threading.Semaphore(0)
        self.budget = [0] * n
        self.lines = [0] * n
        self.done = [False] * n
        self.results: List[Any] = [None] * n
        self.errors: List[Optional[BaseException]] = [None] * n
        self.threads = [threading.Thread(target=self._body, args=(i,), daemon=True) for i in range(n)]

    def _body(self, i: int) -> None:
        self.go[i].acquire()
        pkg = self.pkg

        def local(frame: Any, event: str, arg: Any) -> Any:
            if event == "line":
                self.lines[i] += 1
                self.budget[i] -= 1
                if self.budget[i] <= 0:
                    self.back.release()
                    self.go[i].acquire()
            return local

        def glob(frame: Any, event: str, arg: Any) -> Any:
            if frame.f_code.co_filename.startswith(pkg):
                return local
            return None

        sys.settrace(glob)
        try:
            self.results[i] = self.fns[i]()
        except BaseException as e:  # noqa: BLE001
            self.errors[i] = e
        finally:
            sys.settrace(None)
            self.done[i] = True
            self.back.release()

    def burst(self, i: int, n: int) -> None:
        if self.done[i]:
            return
        self.budget[i] = n
        self.go[i].release()
        self.back.acquire()

    def run(self, schedule: Sequence[Tuple[int, int]]) -> None:
        for t in self.threads:
            t.start()
        for i, n in schedule:
            self.burst(i, n)
        for i in range(len(self.fns)):
            while not self.done[i]:
                self.burst(i, INF)
        for t in self.threads:
            t.join(5)


def solo_lines(fn: Callable[[], Any]) -> Tuple[int, Any, Optional[BaseException]]:
    """Number of library lines one call executes on its own (the L of MC_Threads), its result and error."""
    r = Run([fn])
    r.run([])
    return r.lines[0], r.results[0], r.errors[0]
