"""Recorder for Parser.tla / Trace_Parser.tla: the real lexer's tokens and the real parser's
syntax tree (or error class) for a query text, projected onto the specification's vocabulary.

Conversions of token texts (string escapes, number values, regular-expression compilation) are
done here with the host's own json / float / re - they are not the parser's business - and
handed to the specification as fields of the token (`v` decoded text, `h` value in halves,
`bad` = not convertible).  A text whose numbers do not fit the specification's integers is
reported as unrepresentable and skipped by the caller.
"""
from __future__ import annotations

import json
import re
from typing import Any, Dict, List, Optional, Tuple

from .core import text

LIM = 2 ** 29


class Unrepresentable(Exception):
    pass


def _cps(s: str) -> List[int]:
    return text(s)


def project_token(tok: Any) -> Dict[str, Any]:
    k, v = tok.kind, tok.value
    out: Dict[str, Any] = {"k": k, "v": _cps(v), "raw": _cps(v), "h": 0, "bad": False}
    if k in ("DOUBLE_QUOTE_STRING", "SINGLE_QUOTE_STRING"):
        raw = v.replace('"', '\\"').replace("\\'", "'") if k == "SINGLE_QUOTE_STRING" else v
        try:
            dec = json.loads('"' + raw + '"')
            out["v"] = _cps(dec)
        except ValueError:
            out["bad"] = True
    elif k in ("INT", "FLOAT"):
        try:
            f = float(v)
            if f in (float("inf"), float("-inf")) or f != f:
                out["bad"] = True
            else:
                val = int(f) if k == "INT" else f
                h = val * 2
                if h != int(h) or abs(h) >= LIM:
                    raise Unrepresentable(v)
                out["h"] = int(h)
        except (ValueError, OverflowError):
            out["bad"] = True
        if len(v) > 9:
            raise Unrepresentable(v)
    elif k in ("SLICE_START", "SLICE_STOP", "SLICE_STEP"):
        if len(v) > 9:
            raise Unrepresentable(v)
    elif k == "RE_FLAGS":
        out["v"] = _cps("".join(sorted(set(v))))      # a set of flags; the order they were written in carries nothing
    return out


FLAG = {"a": re.A, "i": re.I, "m": re.M, "s": re.S}


def _regex_convertible(pattern: str, flags: str) -> bool:
    fl = 0
    for c in set(flags):
        fl |= FLAG.get(c, 0)
    try:
        re.compile(pattern, fl)
        return True
    except (re.error, OverflowError, RecursionError, ValueError):
        return False


def tokens_of(env: Any, query: str) -> List[Dict[str, Any]]:
    """Tokens up to (and including, as kind ILLEGAL) the first character no rule accepts."""
    from jsonpath.exceptions import JSONPathSyntaxError

    out = []
    _raw: List[str] = []
    it = env.lexer.tokenize(query)
    while True:
        try:
            t = next(it)
        except StopIteration:
            break
        except JSONPathSyntaxError:
            out.append({"k": "ILLEGAL", "v": [], "raw": [], "h": 0, "bad": False})
            break
        out.append(project_token(t))
        if t.kind == "RE_FLAGS" and len(out) >= 2 and out[-2]["k"] == "RE_PATTERN":
            # whether the host can compile the pattern depends on the flags that follow it
            out[-2]["bad"] = not _regex_convertible(_raw[-1], t.value)
        if t.kind == "RE_PATTERN":
            _raw.append(t.value)
            out[-1]["bad"] = not _regex_convertible(t.value, "")
    return out


def _num(v: Any) -> Dict[str, Any]:
    h = v * 2
    if h != int(h) or abs(h) >= LIM:
        raise Unrepresentable(str(v))
    return {"k": "num", "h": int(h)}


def project_selector(s: Any) -> Dict[str, Any]:
    from jsonpath import selectors as S

    if isinstance(s, S.PropertySelector):
        return {"k": "name", "s": _cps(s.name)}
    if isinstance(s, S.IndexSelector):
        if abs(s.index) >= LIM:
            raise Unrepresentable(str(s.index))
        return {"k": "index", "i": s.index}
    if isinstance(s, S.KeysSelector):
        return {"k": "keys"}
    if isinstance(s, S.SliceSelector):
        def b(x: Optional[int]) -> List[int]:
            if x is not None and abs(x) >= LIM:
                raise Unrepresentable(str(x))
            return [] if x is None else [x]

        return {"k": "slice", "lo": b(s.slice.start), "hi": b(s.slice.stop), "st": b(s.slice.step)}
    if isinstance(s, S.WildSelector):
        return {"k": "wild"}
    if isinstance(s, S.RecursiveDescentSelector):
        return {"k": "ddot"}
    if isinstance(s, S.ListSelector):
        return {"k": "list", "items": [project_selector(x) for x in s.items]}
    if isinstance(s, S.Filter):
        return {"k": "filter", "e": project_expr(s.expression.expression)}
    raise Unrepresentable(type(s).__name__)


def project_expr(e: Any) -> Dict[str, Any]:
    from jsonpath import filter as F

    if isinstance(e, F.InfixExpression):
        return {"k": "infix", "op": e.operator, "l": project_expr(e.left), "r": project_expr(e.right)}
    if isinstance(e, F.PrefixExpression):
        return {"k": "prefix", "e": project_expr(e.right)}
    if isinstance(e, F.Path):
        root = "@" if isinstance(e, F.SelfPath) else "_" if isinstance(e, F.FilterContextPath) else ("^" if e.path.fake_root else "$")
        return {"k": "path", "root": root, "sels": [project_selector(x) for x in e.path.selectors]}
    if isinstance(e, F.FunctionExtension):
        return {"k": "fn", "f": _cps(e.name), "args": [project_expr(a) for a in e.args]}
    if isinstance(e, F.CurrentKey):
        return {"k": "key"}
    if isinstance(e, F.Nil):
        return {"k": "nil"}
    if isinstance(e, F.Undefined):
        return {"k": "undef"}
    if isinstance(e, F.BooleanLiteral):
        return {"k": "bool", "b": bool(e.value)}
    if isinstance(e, F.StringLiteral):
        return {"k": "str", "s": _cps(e.value)}
    if isinstance(e, (F.IntegerLiteral, F.FloatLiteral)):
        return _num(e.value)
    if isinstance(e, F.RegexLiteral):
        fl = e.value.flags
        flags = "".join(c for c, bit in (("a", re.A), ("i", re.I), ("m", re.M), ("s", re.S)) if fl & bit)
        return {"k": "re", "s": _cps(e.value.pattern), "flags": _cps(flags)}
    if isinstance(e, F.ListLiteral):
        return {"k": "list", "items": [project_expr(x) for x in e.items]}
    raise Unrepresentable(type(e).__name__)


def project_query(p: Any) -> Dict[str, Any]:
    from jsonpath.path import CompoundJSONPath

    def one(q: Any) -> Dict[str, Any]:
        return {"fake": bool(q.fake_root), "sels": [project_selector(s) for s in q.selectors]}

    if isinstance(p, CompoundJSONPath):
        return {"first": one(p.path), "rest": [{"op": "|" if op == p.env.union_token else "&", "q": one(q)} for op, q in p.paths]}
    return {"first": one(p), "rest": []}


def error_class(e: BaseException) -> str:
    import jsonpath.exceptions as X

    for cls, name in ((X.JSONPathIndexError, "index"), (X.JSONPathNameError, "name"), (X.JSONPathTypeError, "type"), (X.JSONPathSyntaxError, "syntax")):
        if isinstance(e, cls):
            return name
    return "foreign:" + type(e).__name__


def record(env: Any, query: str) -> Optional[Dict[str, Any]]:
    """One trace record for Trace_Parser, or None when the text is outside what the specification's integers can carry."""
    try:
        if len(query) > 400:        # the specification's scanners recurse once per character
            raise Unrepresentable("long text")
        if any(c.isdigit() and not c.isascii() for c in query):
            # the host's \\d and int() also read the decimal digits of other scripts; Lexer.tla / Parser.tla know the ASCII digits only
            raise Unrepresentable("non-ASCII decimal digit")
        toks = tokens_of(env, query)
        try:
            p = env.compile(query)
        except RecursionError:
            return None
        except BaseException as e:  # noqa: BLE001
            return {"text": _cps(query), "toks": toks, "ok": False, "err": error_class(e), "tree": []}
        return {"text": _cps(query), "toks": toks, "ok": True, "err": "none", "tree": project_query(p)}
    except Unrepresentable:
        return None


def normal(x: Any) -> Any:
    """A projected tree with every shorthand selector written as the one-item bracketed selection it abbreviates
    (`.a` and `['a']` are the same segment; the canonical string form only writes the second) and every omitted slice step as 1."""
    if isinstance(x, list):
        return [normal(v) for v in x]
    if not isinstance(x, dict):
        return x
    out = {k: normal(v) for k, v in x.items()}
    if out.get("k") == "infix" and out.get("op") == "<>":
        out["op"] = "!="         # two spellings of one operator
    if out.get("k") == "slice" and out.get("st") == []:
        out["st"] = [1]          # an omitted step is the step 1 (RFC 9535 2.3.4.2.2); the canonical string form writes it
    if "sels" in out:
        out["sels"] = [s if s.get("k") in ("list", "ddot") else {"k": "list", "items": [s]} for s in out["sels"]]
    return out
