"""Validation of the real lexer + parser against Parser.tla (Trace_Parser) and of
Parse o Render = identity (Trace_ParseBack), shared by C07 and C10.

validate(chk, items) takes items {"text", "lim" (None or [lo, hi]), optional "first"/"rest"
(the specification's program the text was rendered from), optional "accept" (the verdict of
Typing.tla)}; it records tokens and tree / error class from the real code in forked workers,
lets TLC judge every record, and returns the rejected ones.
"""
from __future__ import annotations

import json
import os
from typing import Any, Dict, List, Optional, Tuple

from . import core, parsetrace

_envs: Dict[str, Any] = {}

PCFG = """CONSTANTS MinIdx = {lo}
 MaxIdx = {hi}
SPECIFICATION Spec
PROPERTY Verdicts
"""
BCFG = """SPECIFICATION Spec
PROPERTY Verdicts
"""
DEFAULT_LIM = 10 ** 9      # stands for the default +-(2**53 - 1): texts with numbers of more than 9 digits are not recorded at all


def env_for(lim: Optional[List[int]]) -> Any:
    import jsonpath

    key = json.dumps(lim)
    if key not in _envs:
        if lim is None:
            _envs[key] = jsonpath.JSONPathEnvironment(well_typed=True)
        else:
            lo, hi = lim

            class Narrow(jsonpath.JSONPathEnvironment):
                min_int_index = lo
                max_int_index = hi

            _envs[key] = Narrow(well_typed=True)
    return _envs[key]


def _record(item: Dict[str, Any]) -> Optional[Dict[str, Any]]:
    return parsetrace.record(env_for(item.get("lim")), item["text"])


def validate(chk: core.Check, items: List[Dict[str, Any]], shards: int = 8) -> Tuple[List[Dict[str, Any]], Dict[str, int]]:
    """-> (rejects [{item, why, spec?, code}], counters)."""
    recs = list(core.pmap(_record, items, item_timeout=30))
    groups: Dict[str, List[Tuple[int, Dict[str, Any]]]] = {}
    counters = {"texts": len(items), "recorded": 0, "outside_spec_integers": 0, "accepted_by_code": 0, "round_trips": 0}
    rejects: List[Dict[str, Any]] = []
    back: List[Tuple[int, Dict[str, Any]]] = []
    for n, (it, r) in enumerate(zip(items, recs)):
        if isinstance(r, list):  # abnormal (hang / crash / escaped exception) reported by pmap
            rejects.append({"item": it, "why": r[0][0], "code": None})
            continue
        if r is None:
            counters["outside_spec_integers"] += 1
            continue
        counters["recorded"] += 1
        counters["accepted_by_code"] += 1 if r["ok"] else 0
        if r["err"].startswith("foreign"):
            rejects.append({"item": it, "why": "compile-raised-" + r["err"], "code": r})
            continue
        groups.setdefault(json.dumps(it.get("lim")), []).append((n, r))
        if r["ok"] and "first" in it:
            back.append((n, r))
    sc = core.scratch()
    jobs = []
    index: List[Tuple[str, List[int]]] = []
    for key, lst in groups.items():
        lim = json.loads(key)
        lo, hi = (DEFAULT_LIM, DEFAULT_LIM) if lim is None else (-lim[0], lim[1])
        k = max(1, min(shards, len(lst) // 500))
        for s in range(k):
            part = lst[s::k]
            pth = sc / f"ptrace-{os.getpid()}-{len(jobs)}.ndjson"
            with open(pth, "w") as f:
                for j, (n, r) in enumerate(part):
                    acc = items[n].get("accept")
                    f.write(json.dumps({"id": j + 1, "text": r["text"], "toks": r["toks"], "ok": r["ok"], "err": r["err"], "tree": r["tree"],
                                        "accept": "na" if acc is None else ("yes" if acc else "no")}) + "\n")
            jobs.append(("Trace_Parser", PCFG.format(lo=lo, hi=hi), dict(env={"TRACE_FILE": str(pth)}, workers=2, timeout=3000, heap="3g")))
            index.append(("parser", [n for n, _ in part]))
    if back:
        k = max(1, min(shards, len(back) // 500))
        for s in range(k):
            part = back[s::k]
            pth = sc / f"pback-{os.getpid()}-{len(jobs)}.ndjson"
            with open(pth, "w") as f:
                for j, (n, r) in enumerate(part):
                    it = items[n]
                    f.write(json.dumps({"id": j + 1, "tree": r["tree"], "first": it["first"], "rest": it.get("rest", [])}) + "\n")
            jobs.append(("Trace_ParseBack", BCFG, dict(env={"TRACE_FILE": str(pth)}, workers=2, timeout=3000, heap="3g")))
            index.append(("back", [n for n, _ in part]))
        counters["round_trips"] = len(back)
    for (kind, ns), r in zip(index, core.tlc_parallel(jobs, threads=8)):
        chk.add_tlc(r)
        seen = set()
        for x in r.records:
            if x["reject"] in seen:
                continue
            seen.add(x["reject"])
            n = ns[x["reject"] - 1]
            rejects.append({"item": items[n], "why": x["why"], "spec": x.get("spec") or {"parsed": x.get("parsed"), "program": x.get("program")}, "code": recs[n]})
    return rejects, counters


def soup_texts(chk: core.Check, mode: str, n: int) -> List[str]:
    """Query texts of MC_Soup (lexeme soups up to n, or all single-lexeme mutants of the valid sentences)."""
    from .props import c06

    r = core.tlc("MC_Soup", c06.GEN.format(lang="path", n=n, mode=mode), timeout=3000, workers=8)
    chk.add_tlc(r)
    dec = {"EACUTE": "\u00e9", "SUPER2": "\u00b2", "ARDIGIT1": "\u0661", "HUGE": "9" * 4400, "LIMIT4300": "9" * 4300, "SQRUN": "'" + "\\" * 70, "DQRUN": '"' + "\\" * 70, "RERUN": "/" + "\\" * 70}
    return sorted({"".join(dec.get(x, x) for x in rec["s"]) for rec in r.records})


def report(chk: core.Check, rejects: List[Dict[str, Any]], label: str) -> None:
    for rj in rejects:
        it = rj["item"]
        code = rj.get("code") or {}
        kind = "accepted" if code.get("ok") else ("refused-" + str(code.get("err")))
        chk.violation(f"{label}:{rj['why']}|code-{kind}", {"query": it["text"], "limits": it.get("lim"), "why": rj["why"],
                                                           "specification": str(rj.get("spec"))[:600], "code_tree": str(code.get("tree"))[:600]},
                      f"{rj['why']}: {it['text'][:80]!r}")
