"""C15 - a patch is a faithful, reusable value (spec: Patch.tla, MC_PatchValue.tla).

TLC enumerates histories Build(route) ; (Apply(doc) | AsDicts)* over operation lists
whose later operations modify containers inserted by earlier ones; in the
specification the patch never changes.  The harness replays each history into a real
JSONPatch object and checks after every action: result = the specification's, printed
dicts = the operations given (names included), caller's list untouched, results of
repeated applications equal and sharing no container with each other or the patch.
"""
from __future__ import annotations

import copy
import json
from typing import Any, Dict, List, Set, Tuple

from .. import core
from ..core import Check, canon, exc_family, show, tag, tlc, untag, untext

CFG = """CONSTANTS MaxPatchLen = {plen}
 MaxActs = {acts}
INIT {init}
NEXT {next}
INVARIANT Repeatable
INVARIANT AddVariants
INVARIANT Export
PROPERTY PatchNeverChanges
"""


def to_dict(d: Dict[str, Any]) -> Dict[str, Any]:
    out: Dict[str, Any] = {"op": d["op"], "path": untext(d["path"])}
    if d["op"] in ("move", "copy"):
        out["from"] = untext(d["from"])
    elif d["op"] != "remove":
        out["value"] = untag(d["value"])
    return out


def canon_dicts(ds: Any) -> Any:
    try:
        return [tuple(sorted((k, canon(tag(v)) if k == "value" else v) for k, v in d.items())) for d in ds]
    except Exception as e:  # noqa: BLE001
        return f"unprintable:{type(e).__name__}"


def containers(v: Any, acc: Set[int]) -> Set[int]:
    if isinstance(v, dict):
        acc.add(id(v))
        for x in v.values():
            containers(x, acc)
    elif isinstance(v, list):
        acc.add(id(v))
        for x in v:
            containers(x, acc)
    return acc


def replay(rec: Dict[str, Any]) -> List[Tuple[str, Dict[str, Any], str]]:
    from jsonpath import JSONPatch

    dicts = [to_dict(d) for d in rec["dicts"]]
    given = copy.deepcopy(dicts)
    pristine = canon_dicts(given)
    bad: List[str] = []
    try:
        if rec["route"] == "document":
            patch = JSONPatch(given)
        elif rec["route"] == "asdicts":
            patch = JSONPatch(JSONPatch(given).asdicts())
        else:
            patch = JSONPatch()
    except BaseException as e:  # noqa: BLE001
        bad.append(f"build-raised-{exc_family(e)}")
        patch = None
    results: List[Tuple[Any, Any]] = []
    if patch is not None:
        nbuilt = 0 if rec["route"] == "builder" else len(dicts)
        if canon_dicts(patch.asdicts()) != pristine[:nbuilt]:
            got = [d.get("op") for d in patch.asdicts()]
            bad.append("asdicts-after-build" + ("-op-name" if got != [d["op"] for d in dicts] else ""))
        for k, h in enumerate(rec["hist"], 1):
            if bad:
                break
            if h["act"] == "build":
                d = given[nbuilt]
                try:
                    if d["op"] in ("move", "copy"):
                        getattr(patch, d["op"])(d["from"], d["path"])
                    elif d["op"] == "remove":
                        patch.remove(d["path"])
                    else:
                        getattr(patch, d["op"])(d["path"], d["value"])
                except BaseException as e:  # noqa: BLE001
                    bad.append(f"builder-raised-{exc_family(e)}")
                    break
                nbuilt += 1
                continue
            pristine_now = pristine[:nbuilt]
            if h["act"] == "asdicts":
                if canon_dicts(patch.asdicts()) != pristine_now:
                    bad.append("asdicts-differs-from-operations-given" + ("-mid-build" if nbuilt < len(dicts) else ""))
                continue
            doc = untag(h["doc"])
            exp = h["result"]
            try:
                out = patch.apply(doc)
                obs = {"ok": True, "doc": tag(out)}
            except BaseException as e:  # noqa: BLE001
                out = None
                obs = {"ok": False, "fam": exc_family(e)}
            if exp.get("t") == "error":
                if obs["ok"]:
                    bad.append("apply-no-error")
                elif not obs["fam"].startswith("patch") or (exp["kind"] == "test" and obs["fam"] != "patch-test"):
                    bad.append(f"apply-raised-{obs['fam']}")
            elif not obs["ok"]:
                bad.append(f"apply-raised-{obs['fam']}")
            elif canon(obs["doc"]) != canon(exp):
                prior = [r for r in results if canon(r[0]) == canon(h["doc"])]
                bad.append("apply-wrong-result" + ("-on-reuse" if prior or k > 1 else ""))
            if bad:
                break
            if canon_dicts(patch.asdicts()) != pristine_now:
                bad.append("apply-changed-the-patch")
            elif canon_dicts(given) != pristine:
                bad.append("apply-changed-callers-list")
            elif out is not None:
                mine = containers(out, set())
                if mine & containers([d.get("value") for d in patch.asdicts()], set()):
                    bad.append("result-shares-container-with-patch")
                elif mine & containers(given, set()):
                    bad.append("result-shares-container-with-callers-list")
                elif any(mine & containers(o, set()) for _, o in results if o is not None):
                    bad.append("results-share-containers")
            results.append((h["doc"], out))
    if not bad:
        return []
    ops = "+".join(d["op"] for d in dicts)
    sig = f"{bad[0]}|{rec['route']}|{ops}"
    case = {"route": rec["route"], "ops": dicts, "actions": [(h["act"], show(h["doc"])) for h in rec["hist"]], "failed": bad, "tagged": rec}
    return [(sig, case, bad[0])]


def run(chk: Check, tier: str, seed: int) -> None:
    recs: List[Dict[str, Any]] = []
    r = tlc("MC_PatchValue", CFG.format(plen=2, acts=2 if tier == "quick" else 3, next="Next", init="Init"), timeout=2400)
    chk.add_tlc(r)
    recs += r.records
    num, depth = (3000, 5) if tier == "quick" else (80000, 6)
    r = tlc("MC_PatchValue", CFG.format(plen=3 if tier == "quick" else 4, acts=depth - 1, next="NextSim", init="InitSim"), simulate=(num, depth + 1), seed=seed, workers=1, timeout=2400)
    chk.add_tlc(r)
    recs += r.records
    for rec, res in zip(recs, core.pmap(replay, recs)):
        chk.traces += 1
        if sum(1 for h in rec["hist"] if h["act"] == "apply") >= 2:
            chk.nontrivial.add(json.dumps(rec, sort_keys=True))
        for sig, case, what in res:
            chk.violation(sig, case, what)
    for rec in recs[:2] + recs[-2:]:
        chk.sample({"route": rec["route"], "ops": [to_dict(d) for d in rec["dicts"]], "actions": [(h["act"], show(h["doc"])) for h in rec["hist"]]})
    chk.rule = ("behaviours of MC_PatchValue.tla: operation lists of length 1-2 (exhaustive) and up to 3-4 (random walks) over an 18-operation pool "
                "(six standard operations, addne, addap; container values that later operations modify) x 3 build routes x histories of "
                "apply(doc in 3 documents)/asdicts; non-trivial = the same patch object applied at least twice; distinct by content")
    chk.assumptions += ["operation values are JSON values; container identity is observed with id() by the harness"]


def replay_file(case: Dict[str, Any]) -> int:
    res = replay(case["case"]["tagged"])
    for sig, c, what in res:
        print("DIVERGENCE", sig, c["failed"])
    return 1 if res else 0
