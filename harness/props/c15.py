"""C15 - a patch is a faithful, reusable value (spec: Patch.tla, MC_PatchValue.tla).

TLC enumerates histories Build(route) ; (Apply(doc) | AsDicts)* over operation lists
whose later operations modify containers inserted by earlier ones; in the
specification the patch never changes.  The harness replays each history into a real
JSONPatch object and checks after every action: result = the specification's, printed
dicts = the operations given (names included), caller's list untouched, results of
repeated applications equal and sharing no container with each other or the patch.
"""
from __future__ import annotations

import copy
import json
from typing import Any, Dict, List, Set, Tuple

from .. import core
from ..core import Check, canon, exc_family, show, tag, tlc, untag, untext

CFG = """CONSTANTS MaxPatchLen = {plen}
 MaxActs = {acts}
INIT {init}
NEXT {next}
INVARIANT Repeatable
INVARIANT AddVariants
INVARIANT Export
PROPERTY PatchNeverChanges
"""


def to_dict(d: Dict[str, Any]) -> Dict[str, Any]:
    out: Dict[str, Any] = {"op": d["op"], "path": untext(d["path"])}
    if d["op"] in ("move", "copy"):
        out["from"] = untext(d["from"])
    elif d["op"] != "remove":
        out["value"] = untag(d["value"])
    return out


def canon_dicts(ds: Any) -> Any:
    try:
        return [tuple(sorted((k, canon(tag(v)) if k == "value" else v) for k, v in d.items())) for d in ds]
    except Exception as e:  # noqa: BLE001
        return f"unprintable:{type(e).__name__}"


def containers(v: Any, acc: Set[int]) -> Set[int]:
    if isinstance(v, dict):
        acc.add(id(v))
        for x in v.values():
            containers(x, acc)
    elif isinstance(v, list):
        acc.add(id(v))
        for x in v:
            containers(x, acc)
    return acc


def ptr_arg(text: str, how: int) -> Any:
    """A pointer argument for a builder call: text, parsed object, or built from parts."""
    from jsonpath import JSONPointer

    if how == 0:
        return text
    if how == 1:
        return JSONPointer(text)
    toks = [t.replace("~1", "/").replace("~0", "~") for t in text.split("/")[1:]]
    if how == 2:
        return JSONPointer.from_parts(toks)
    return JSONPointer.from_parts([int(t) if t.isdigit() and t.isascii() and (t == "0" or t[0] != "0") else t for t in toks])


def escaped_spelling(text: str) -> str:
    """The same pointer with its first letter spelled as a \\uXXXX escape (equal under the default options)."""
    for i, ch in enumerate(text):
        if ch.isalpha() and ch.isascii():
            return text[:i] + "\\u%04x" % ord(ch) + text[i + 1:]
    return text


def replay(rec: Dict[str, Any]) -> List[Tuple[str, Dict[str, Any], str]]:
    from jsonpath import JSONPatch

    variant = sum(len(d["path"]) for d in rec["dicts"]) + len(rec["hist"])
    dicts = [to_dict(d) for d in rec["dicts"]]
    given = copy.deepcopy(dicts)
    pristine = canon_dicts(given)
    bad: List[str] = []
    try:
        if rec["route"] == "document":
            if variant % 5 in (3, 4):
                # the patch document as JSON text / in a file, its paths spelled with \\uXXXX escapes (six plain characters each once the
                # JSON text is decoded): the same patch as the list of operations it spells
                import io

                spelled = [dict(d, path=escaped_spelling(d["path"])) for d in given]
                ptext = json.dumps(spelled)
                patch = JSONPatch(ptext if variant % 5 == 3 else io.StringIO(ptext))
            elif variant % 3 == 0:
                # the same operations spelled with \\uXXXX escapes, after a patch with other decoding options was built
                # from the same texts (options are per patch, nothing may be remembered between patches)
                spelled = [dict(d, path=escaped_spelling(d["path"])) for d in given]
                try:
                    JSONPatch(copy.deepcopy(spelled), unicode_escape=False, uri_decode=True)
                except BaseException:  # noqa: BLE001
                    pass
                patch = JSONPatch(spelled)
            elif variant % 3 == 1:
                patch = JSONPatch(iter(given))          # the operations given as a one-shot iterable
            else:
                patch = JSONPatch(given)
        elif rec["route"] == "asdicts":
            patch = JSONPatch(JSONPatch(given).asdicts())
        else:
            patch = JSONPatch()
    except BaseException as e:  # noqa: BLE001
        bad.append(f"build-raised-{exc_family(e)}")
        patch = None
    results: List[Tuple[Any, Any]] = []
    if patch is not None:
        nbuilt = 0 if rec["route"] == "builder" else len(dicts)
        if canon_dicts(patch.asdicts()) != pristine[:nbuilt]:
            got = [d.get("op") for d in patch.asdicts()]
            bad.append("asdicts-after-build" + ("-op-name" if got != [d["op"] for d in dicts] else ""))
        for k, h in enumerate(rec["hist"], 1):
            if bad:
                break
            if h["act"] == "build":
                d = given[nbuilt]
                try:
                    # the builder accepts pointer text or pointer objects however they were made: rotate through
                    # text, JSONPointer(text), from_parts(strings) and from_parts(with integer indices)
                    how = (variant + nbuilt) % 4
                    pp, ff = ptr_arg(d["path"], how), ptr_arg(d.get("from", ""), (how + 1) % 4)
                    if d["op"] in ("move", "copy"):
                        getattr(patch, d["op"])(ff, pp)
                    elif d["op"] == "remove":
                        patch.remove(pp)
                    else:
                        getattr(patch, d["op"])(pp, d["value"])
                except BaseException as e:  # noqa: BLE001
                    bad.append(f"builder-raised-{exc_family(e)}")
                    break
                nbuilt += 1
                continue
            pristine_now = pristine[:nbuilt]
            if h["act"] == "asdicts":
                if canon_dicts(patch.asdicts()) != pristine_now:
                    bad.append("asdicts-differs-from-operations-given" + ("-mid-build" if nbuilt < len(dicts) else ""))
                continue
            doc = untag(h["doc"])
            exp = h["result"]
            try:
                out = patch.apply(doc)
                obs = {"ok": True, "doc": tag(out)}
            except BaseException as e:  # noqa: BLE001
                out = None
                obs = {"ok": False, "fam": exc_family(e)}
            if exp.get("t") == "error":
                if obs["ok"]:
                    bad.append("apply-no-error")
                elif not obs["fam"].startswith("patch") or (exp["kind"] == "test" and obs["fam"] != "patch-test"):
                    bad.append(f"apply-raised-{obs['fam']}")
            elif not obs["ok"]:
                bad.append(f"apply-raised-{obs['fam']}")
            elif canon(obs["doc"]) != canon(exp):
                prior = [r for r in results if canon(r[0]) == canon(h["doc"])]
                bad.append("apply-wrong-result" + ("-on-reuse" if prior or k > 1 else ""))
            if bad:
                break
            if canon_dicts(patch.asdicts()) != pristine_now:
                bad.append("apply-changed-the-patch")
            elif canon_dicts(given) != pristine and not (rec["route"] == "document" and (variant % 3 == 0 or variant % 5 in (3, 4))):
                bad.append("apply-changed-callers-list")
            elif out is not None:
                mine = containers(out, set())
                if mine & containers([d.get("value") for d in patch.asdicts()], set()):
                    bad.append("result-shares-container-with-patch")
                elif mine & containers(given, set()):
                    bad.append("result-shares-container-with-callers-list")
                elif any(mine & containers(o, set()) for _, o in results if o is not None):
                    bad.append("results-share-containers")
            results.append((h["doc"], out))
            if not bad and exp.get("t") != "error" and out is not None:
                # the same document given as JSON text, twice: equal results, independent of one another and of the first result
                try:
                    t1 = patch.apply(json.dumps(untag(h["doc"])))
                    if isinstance(t1, (list, dict)):
                        (t1.append if isinstance(t1, list) else (lambda x: t1.__setitem__("edited-by-caller", x)))("edited-by-caller")
                    t2 = patch.apply(json.dumps(untag(h["doc"])))
                    if canon(tag(t2)) != canon(exp):
                        bad.append("apply-to-json-text-wrong-result-on-reuse")
                except BaseException as e:  # noqa: BLE001
                    bad.append(f"apply-to-json-text-raised-{exc_family(e)}")
    if not bad:
        return []
    ops = "+".join(d["op"] for d in dicts)
    sig = f"{bad[0]}|{rec['route']}|{ops}"
    case = {"route": rec["route"], "ops": dicts, "actions": [(h["act"], show(h["doc"])) for h in rec["hist"]], "failed": bad, "tagged": rec}
    return [(sig, case, bad[0])]


def sibling_operations(doc_t: Dict[str, Any]) -> List[Tuple[str, Dict[str, Any], str]]:
    """'addne differs from add only in leaving an existing object member untouched; addap differs only in appending when the
    array index cannot be resolved': at every array position of the document - named by whatever token, the documented
    negative indices included - add, addne and addap (where the index resolves) are the same operation.  Differential:
    what the token means is not judged here, only that the three agree."""
    from jsonpath import JSONPatch, JSONPointer

    out: List[Tuple[str, Dict[str, Any], str]] = []
    doc = untag(doc_t)

    def arrays(v: Any, path: List[str]) -> Any:
        if isinstance(v, list):
            yield path, v
            for i, x in enumerate(v):
                yield from arrays(x, path + [str(i)])
        elif isinstance(v, dict):
            for k, x in v.items():
                yield from arrays(x, path + [k])

    def apply(op: str, ptr: Any) -> Any:
        try:
            return ("ok", canon(tag(getattr(JSONPatch(), op)(ptr, "NEW").apply(untag(doc_t)))))
        except BaseException as e:  # noqa: BLE001
            return ("error:" + exc_family(e), None)

    for path, arr in arrays(doc, []):
        n = len(arr)
        for tok in sorted({"0", str(n), "-", "-1", str(-n), str(-n - 1), str(max(n - 1, 0))}):
            ptr = JSONPointer.from_parts(path + [tok], unicode_escape=False)
            base = apply("add", ptr)
            resolves = True
            try:
                ptr.resolve(doc)
            except BaseException:  # noqa: BLE001
                resolves = False
            if not resolves and tok.lstrip("-").isdigit():
                # "addap differs only in appending when the array index cannot be resolved": an index that names no element -
                # at or past the end, or further below zero than the array is long - appends, as add at "-" does
                want = apply("add", JSONPointer.from_parts(path + ["-"], unicode_escape=False))
                got = apply("addap", ptr)
                if got != want:
                    kind = "negative-index" if tok.startswith("-") else "index"
                    out.append((f"addap-does-not-append-at-an-unresolvable-index|{kind}", {"doc": show(doc_t), "pointer": str(ptr), "add-at-dash": str(want)[:200], "addap": str(got)[:200]},
                                "addap does not append"))
                    return out
            for op in ("addne",) + (("addap",) if resolves else ()):
                got = apply(op, ptr)
                if got != base:
                    kind = "negative-index" if tok.startswith("-") and tok != "-" else "index"
                    out.append((f"{op}-differs-from-add-on-an-array|{kind}", {"doc": show(doc_t), "pointer": str(ptr), "add": str(base)[:200], op: str(got)[:200]}, f"{op} differs from add"))
                    return out
    return out


def run(chk: Check, tier: str, seed: int) -> None:
    recs: List[Dict[str, Any]] = []
    r = tlc("MC_PatchValue", CFG.format(plen=2, acts=2 if tier == "quick" else 3, next="Next", init="Init"), timeout=2400)
    chk.add_tlc(r)
    recs += r.records
    num, depth = (3000, 5) if tier == "quick" else (80000, 6)
    r = tlc("MC_PatchValue", CFG.format(plen=3 if tier == "quick" else 4, acts=depth - 1, next="NextSim", init="InitSim"), simulate=(num, depth + 1), seed=seed, workers=1, timeout=2400)
    chk.add_tlc(r)
    recs += r.records
    seen_docs: Dict[str, Any] = {}
    for rec in recs:
        for h in rec["hist"]:
            if h["act"] == "apply":
                seen_docs.setdefault(json.dumps(h["doc"], sort_keys=True), h["doc"])
    for res in core.pmap(sibling_operations, list(seen_docs.values())):
        for sig, case, what in res:
            chk.violation(sig, case, what)
    chk.extra["documents_for_add_addne_addap_agreement"] = len(seen_docs)
    for rec, res in zip(recs, core.pmap(replay, recs)):
        chk.traces += 1
        if sum(1 for h in rec["hist"] if h["act"] == "apply") >= 2:
            chk.nontrivial.add(json.dumps(rec, sort_keys=True))
        for sig, case, what in res:
            chk.violation(sig, case, what)
    for rec in recs[:2] + recs[-2:]:
        chk.sample({"route": rec["route"], "ops": [to_dict(d) for d in rec["dicts"]], "actions": [(h["act"], show(h["doc"])) for h in rec["hist"]]})
    chk.rule = ("behaviours of MC_PatchValue.tla: operation lists of length 1-2 (exhaustive) and up to 3-4 (random walks) over an 18-operation pool "
                "(six standard operations, addne, addap; container values that later operations modify) x 3 build routes x histories of "
                "apply(doc in 3 documents)/asdicts; non-trivial = the same patch object applied at least twice; distinct by content")
    chk.assumptions += ["operation values are JSON values; container identity is observed with id() by the harness"]


def replay_file(case: Dict[str, Any]) -> int:
    res = replay(case["case"]["tagged"])
    for sig, c, what in res:
        print("DIVERGENCE", sig, c["failed"])
    return 1 if res else 0
