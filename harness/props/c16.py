"""C16 - Relative JSON Pointers are parsed, printed and applied per the draft
(spec: RelPointer.tla, MC_RelPointer.tla).

TLC explores the three-phase application machine (move up, adjust index, append
suffix / set key marker) for every base x relative pointer of the universe, checks
it against the closed form and the draft's examples, and exports each terminal
state; the harness parses / prints / applies the same texts with the real classes.
"""
from __future__ import annotations

from typing import Any, Dict, List, Tuple

from .. import core
from ..core import Check, exc_family, tlc, untext

CFG = """CONSTANTS Depth = {depth}
SPECIFICATION Spec
INVARIANT AgreesWithApplyRel
INVARIANT RefusedIffForbidden
INVARIANT Identity
PROPERTY Terminates
INVARIANT Export
"""


def replay(rec: Dict[str, Any]) -> List[Tuple[str, Dict[str, Any], str]]:
    from jsonpath import JSONPointer, RelativeJSONPointer
    from jsonpath.exceptions import RelativeJSONPointerError

    base = untext(rec["base"])
    rel = untext(rec["rel"])
    exp_text = untext(rec["text"])
    exp_toks = [untext(t) for t in rec["toks"]]
    bad: List[str] = []

    def feat() -> str:
        f = []
        if abs(rec["off"]) >= 10:
            f.append("multi-digit-offset")
        elif rec["off"]:
            f.append("offset")
        if rel.endswith("#"):
            f.append("key-marker")
        if not (base + rel).isascii():
            f.append("non-ascii")
        if "~" in rel:
            f.append("escaped-suffix")
        if not rec["ok"]:
            f.append("forbidden")
        return "+".join(f) or "plain"

    if "\\" in rel or "%" in rel:
        # the same text read once with every decoding option on: how a text is read belongs to the call it is given to
        try:
            JSONPointer(base, unicode_escape=False).to(rel, unicode_escape=True, uri_decode=True)
        except BaseException:  # noqa: BLE001
            pass
    for ue in ((True, False) if "\\" not in rel + base else (False,)):      # a backslash is an ordinary character only with escape decoding off
        try:
            r = RelativeJSONPointer(rel, unicode_escape=ue)
        except BaseException as e:  # noqa: BLE001
            bad.append(f"ue={ue}:parse-raised-{exc_family(e)}")
            break
        if str(r) != rel:
            bad.append(f"ue={ue}:print-differs")
            break
        b0 = JSONPointer(base, unicode_escape=ue)
        # the same base three ways: parsed from text, built from its (string) tokens, and as returned by the
        # identity relative pointer "0" (MC_RelPointer's Identity invariant says that is the same pointer)
        base_toks = [t.replace("~1", "/").replace("~0", "~") for t in base.split("/")[1:]]
        variants = [("", b0), ("text-base:", base)]      # (the base may also be given as pointer text)
        try:
            variants.append(("from-parts:", JSONPointer.from_parts(base_toks, unicode_escape=False)))
            variants.append(("after-identity:", RelativeJSONPointer("0").to(b0)))
        except BaseException as e:  # noqa: BLE001
            bad.append(f"base-construction-raised-{exc_family(e)}")
        for vname, b in variants:
            for how in ("rel.to", "ptr.to"):
                try:
                    if isinstance(b, str) and how == "ptr.to":
                        continue
                    res = r.to(b, unicode_escape=ue) if how == "rel.to" else b.to(rel, unicode_escape=ue)
                except RelativeJSONPointerError:
                    if rec["ok"]:
                        bad.append(f"{vname}{how}:refused")
                    continue
                except BaseException as e:  # noqa: BLE001
                    bad.append(f"{vname}{how}:raised-{exc_family(e)}")
                    continue
                if not rec["ok"]:
                    bad.append(f"{vname}{how}:not-refused")
                elif str(res) != exp_text:
                    bad.append(f"{vname}{how}:wrong-pointer")
                elif not (res == JSONPointer(exp_text, unicode_escape=ue)):
                    bad.append(f"{vname}{how}:not-equal-to-parsed-text")
        if bad:
            bad = [f"ue={ue}:" + x for x in bad]
            break
    if not bad:
        return []
    sig = f"{bad[0].split(':', 1)[1]}|{feat()}"
    return [(sig, {"base": base, "rel": rel, "expected": exp_text if rec["ok"] else "relative-pointer error", "failed": bad, "tagged": rec}, bad[0])]


def run(chk: Check, tier: str, seed: int) -> None:
    r = tlc("MC_RelPointer", CFG.format(depth=3 if tier == "quick" else 4), timeout=2400)
    chk.add_tlc(r)
    recs = r.records
    for rec, res in zip(recs, core.pmap(replay, recs)):
        chk.traces += 1
        if rec["steps"] or rec["off"] or len(rec["rel"]) > 1:
            chk.nontrivial.add((untext(rec["base"]), untext(rec["rel"])))
        for sig, case, what in res:
            chk.violation(sig, case, what)
    for rec in recs[:2] + recs[len(recs) // 2: len(recs) // 2 + 3]:
        chk.sample({"base": untext(rec["base"]), "rel": untext(rec["rel"]), "spec": untext(rec["text"]) if rec["ok"] else "refused"})
    # texts no specification string could usefully carry: step counts and offsets of more digits than the host converts
    from jsonpath import JSONPointer, RelativeJSONPointer
    from jsonpath.exceptions import RelativeJSONPointerError

    for rel_text in ("9" * 5000, "0+" + "9" * 5000, "0-" + "9" * 5000, "9" * 5000 + "#", "1/" + "9" * 5000):
        try:
            r = RelativeJSONPointer(rel_text)
            r.to(JSONPointer("/a/1"))
            if not rel_text.startswith("1/"):
                chk.violation("huge-number:accepted", {"rel": rel_text[:12] + "..."}, "a 5000-digit step count or offset accepted")
        except RelativeJSONPointerError:
            pass
        except BaseException as e:  # noqa: BLE001
            chk.violation(f"huge-number:raised-{exc_family(e)}", {"rel": rel_text[:12] + "..."}, type(e).__name__)
        chk.traces += 1
    chk.exhaustive = True
    chk.rule = ("terminal states of MC_RelPointer.tla: bases up to depth 3 (thorough 4) over tokens {a,0,2,10,e-acute,~} x steps 0..depth+1 x "
                "offsets {none,+-1,+-2,+-10,+-12} (only on a final canonical index) x suffix {empty,'#',/a,/~0,/e-acute/0,/a~1b/,/emoji}; "
                "non-trivial = steps, offset or suffix present; distinct by (base text, relative text)")
    chk.assumptions += ["an offset applied to a token that is not an array index is left out (the statement does not say what happens)",
                        "the key marker is represented as the documented '#'-prefixed final token"]


def replay_file(case: Dict[str, Any]) -> int:
    res = replay(case["case"]["tagged"])
    for sig, c, what in res:
        print("DIVERGENCE", sig, c["failed"])
    return 1 if res else 0
