"""C01 - segments and selectors yield exactly the RFC 9535 node list
(spec: JsonPath.tla, Render.tla, PathDocs.tla, MC_PathEval.tla).

TLC runs the segment-by-segment evaluation machine for every query of the universe over
every document at once (LocOK, pipeline = RFC denotation = second formulation, wrong-kind
selectors select nothing, termination) and exports each query in every surface style
with the expected node list per document; the harness compiles each text and compares
findall / finditer results (locations in order, duplicates, identity of the values).
"""
from __future__ import annotations

import json
from typing import Any, Dict, List, Tuple

from .. import core
from ..core import Check, exc_family, loc_to_parts, show, untext
from ..pathcommon import _drive, DocTable, alt_descendant_order_ok, lockey, random_cases, replay_random, run_universes, sel_features, walk

_table: Any = None


def _same_on_shared(path: Any, doc: Any, parts: List[Any]) -> bool:
    """Sync and async evaluation of the document with equal containers shared give the same locations in the same order."""
    from ..pathcommon import _acollect_matches, share_containers

    sdoc = share_containers(doc)
    if [m.parts for m in path.finditer(sdoc)] != parts:
        return False
    return [m.parts for m in _drive(_acollect_matches(path, sdoc, {}))] == parts


def replay(rec: Dict[str, Any]) -> List[Tuple[str, Dict[str, Any], str]]:
    import jsonpath

    tbl: DocTable = _table
    out: List[Tuple[str, Dict[str, Any], str]] = []
    for si, t in enumerate(rec["texts"]):
        text = untext(t)
        try:
            path = jsonpath.compile(text)
        except BaseException as e:  # noqa: BLE001
            out.append((f"compile-raised-{exc_family(e)}|style{si}|{sel_features(rec['q'])}",
                        {"query": text, "style": si, "tagged": rec}, f"valid RFC 9535 query rejected: {type(e).__name__}: {e}"))
            continue
        for d in range(len(tbl)):
            exp_locs = rec["res"][d]
            doc = tbl.fresh(d)
            disc = ""
            try:
                if d > 0:
                    # an iterator over the previous document that is abandoned after one match (match(), limit(), a loop that
                    # breaks) must not leave anything behind in the compiled query
                    for _ in range(30 if ".." in text else 1):      # (descendant segments keep work in progress: many times)
                        next(iter(path.finditer(tbl.fresh(d - 1))), None)
                ms = list(path.finditer(doc))
                obs_parts = [m.parts for m in ms]
                exp_parts = [loc_to_parts(l) for l in exp_locs]
                if obs_parts != exp_parts or [type(x) for p in obs_parts for x in p] != [type(x) for p in exp_parts for x in p]:
                    obs_locs = [lockey(core.parts_to_loc(p)) for p in obs_parts]
                    if not alt_descendant_order_ok(rec["q"], [lockey(l) for l in exp_locs], obs_locs, tbl.order[d]):
                        if len(obs_parts) != len(exp_parts):
                            disc = "wrong-number-of-matches"
                        elif sorted(map(repr, obs_parts)) == sorted(map(repr, exp_parts)):
                            disc = "wrong-order"
                        else:
                            disc = "wrong-nodes"
                elif any(m.obj is not walk(doc, l) for m, l in zip(ms, exp_locs)):
                    disc = "values-not-the-nodes-at-their-locations"
                else:
                    vals = path.findall(doc)
                    vals2 = jsonpath.findall(text, doc)
                    if len(vals) != len(ms) or any(a is not m.obj for a, m in zip(vals, ms)) or len(vals2) != len(ms) or any(a is not m.obj for a, m in zip(vals2, ms)):
                        disc = "findall-differs-from-finditer"
                    elif not (len(avals := _drive(path.findall_async(doc))) == len(ms) and all(a is m.obj for a, m in zip(avals, ms))):
                        disc = "async-twin-selects-other-nodes"
                    elif (d == len(tbl) - 1 or d % 5 == 3) and isinstance(doc, (list, dict)) and not _same_on_shared(path, tbl.fresh(d), obs_parts):
                        # the same document with every group of equal containers being ONE object (a tree to JSON, a DAG to the host)
                        disc = "document-with-shared-containers-selects-other-nodes"
                    elif d == 10 or d == 7:
                        # one environment object, the same text before and after its options are changed: what the text means is what
                        # the options say at the time of the call
                        env = jsonpath.JSONPathEnvironment()
                        env.unicode_escape = False
                        try:
                            env.findall(text, doc)
                        except Exception:  # noqa: BLE001
                            pass
                        env.unicode_escape = True
                        vals3 = env.findall(text, doc)
                        if len(vals3) != len(ms) or any(a is not m.obj for a, m in zip(vals3, ms)):
                            disc = "environment-remembers-the-text-from-before-its-options-changed"
            except BaseException as e:  # noqa: BLE001
                disc = f"evaluate-raised-{exc_family(e)}"
                obs_parts = []
            if disc:
                kind = type(doc).__name__
                reached = sorted({type(walk(tbl.fresh(d), l[:-1])).__name__ for l in (core.parts_to_loc(p) for p in obs_parts) if l} ) if obs_parts else []
                sig = f"{disc}|{sel_features(rec['q'])}|doc:{kind}|obs-parents:{','.join(reached)}"
                out.append((sig, {"query": text, "style": si, "doc": show(tbl.docs[d]["doc"]), "doc_index": d,
                                  "expected_parts": [list(loc_to_parts(l)) for l in exp_locs], "observed_parts": [list(p) for p in obs_parts],
                                  "tagged": rec}, disc))
                break
    return out


def run(chk: Check, tier: str, seed: int) -> None:
    global _table
    universes = ["one", "names", "namelists", "list", "two"] if tier == "quick" else ["one", "names", "namelists", "list", "two", "three", "slices"]
    docs, recs = run_universes(chk, universes)
    _table = DocTable(docs)
    nstyles = len(recs[0]["texts"])
    for rec, res in zip(recs, core.pmap(replay, recs)):
        chk.traces += nstyles * len(docs)
        if any(rec["res"]):
            chk.nontrivial.add(json.dumps(rec["q"], sort_keys=True))
        for sig, case, what in res:
            chk.violation(sig, case, what)
    rnd = random_cases(chk, filters=False, num=4000 if tier == "quick" else 160000, seed=seed, depth=3 if tier == "quick" else 4, segs=3 if tier == "quick" else 4)
    for rec, res in zip(rnd, core.pmap(replay_random, rnd)):
        chk.traces += 4
        if rec["res"]:
            chk.nontrivial.add(json.dumps((rec["q"], rec["doc"]), sort_keys=True))
        for sig, case, what in res:
            chk.violation(sig, case, what)
    chk.extra["random_document_query_pairs"] = len(rnd)
    chk.evaluations = chk.traces
    for rec in recs[5:8] + recs[-2:]:
        chk.sample({"texts": [untext(t) for t in rec["texts"][:3]], "expected_parts_doc8": [list(loc_to_parts(l)) for l in rec["res"][8]]})
    chk.exhaustive = True
    chk.extra["documents"] = len(docs)
    chk.extra["styles"] = nstyles
    chk.rule = ("terminal states of MC_PathEval.tla: every query of the universes (one segment with every selector incl. 63 slices (thorough 448); "
                "bracketed lists of 2-3; two (thorough three) segments; every special member name) rendered in 5 styles x 24 documents; traces = (query, style, "
                "document) evaluations compared; non-trivial = query selects something in some document; distinct by query AST")
    chk.assumptions += ["a reordering of the expected list is accepted only if an RFC-valid descendant visit order could produce it (exact when the only "
                        "descendant segment is last)", "root-level JSON strings are not passed as documents (the API reads str as JSON text)"]


def replay_file(case: Dict[str, Any]) -> int:
    if "doc" in case["case"].get("tagged", {}):  # a random (document, query) pair drawn by MC_PathRandom
        res = replay_random(case["case"]["tagged"])
        for sig, c, what in res:
            print("DIVERGENCE", sig, c["query"], c["expected"], c["observed"])
        return 1 if res else 0
    global _table
    chk = Check("C01", "quick", 0)
    docs, _ = run_universes(chk, ["names"])
    _table = DocTable(docs)
    res = replay(case["case"]["tagged"])
    for sig, c, what in res:
        print("DIVERGENCE", sig, c["query"], c.get("doc"), c.get("expected_parts"), c.get("observed_parts"))
    return 1 if res else 0
