"""C20 - match -> pointer -> patch edits exactly the matched node
(spec: JsonValue.tla SetAtLoc/RemoveAtLoc, Patch.tla, MC_PathEval.tla node tables).

For every match of the C01/C03 product, the match's pointer is used as the target of
test / replace / remove patches applied to fresh copies; the results must be the
documents the specification obtains by editing the tree at the match's location.
"""
from __future__ import annotations

import json
from typing import Any, Dict, List, Tuple

from .. import core
from ..core import Check, canon, exc_family, loc_to_parts, show, tag, untag, untext
from ..pathcommon import DocTable, _drive, lockey, run_universes, sel_features, walk

_table: Any = None
NEW = "NEW"


def replay(rec: Dict[str, Any]) -> List[Tuple[str, Dict[str, Any], str]]:
    import jsonpath
    from jsonpath import JSONPatch

    tbl: DocTable = _table
    out: List[Tuple[str, Dict[str, Any], str]] = []
    text = untext(rec["texts"][0])
    try:
        path = jsonpath.compile(text)
    except BaseException:  # noqa: BLE001
        return out
    for d in range(len(tbl)):
        doc = tbl.fresh(d)
        try:
            ms = list(path.finditer(doc))
        except BaseException:  # noqa: BLE001
            continue
        exp_locs = rec["res"][d]
        if len(ms) != len(exp_locs):
            continue  # C01's business
        sources = [("", ms)]
        try:
            ams = _drive(_collect(path, tbl.fresh(d)))
            if len(ams) == len(ms):
                sources.append(("async-match:", ams))
        except BaseException:  # noqa: BLE001
            pass  # C08's business
        for sname, matches in sources:
            seen = set()
            for m, eloc in zip(matches, exp_locs):
                # the location the specification gives this match (not the one the match claims)
                key = lockey(eloc)
                if key in seen:
                    continue
                seen.add(key)
                node = tbl.by_loc[d].get(key)
                if node is None:
                    continue
                disc = _edits(m, node, tbl, d, quick=bool(sname))
                if not disc and not sname:
                    disc = _nested_twice(m, node, tbl, d) or _replace_lookalike(m, node, tbl, d) or _text_document_twice(m, node, tbl, d)
                    if disc:
                        disc = "pointer-object:" + disc
                if disc:
                    disc = sname + disc
                    last = m.parts[-1] if m.parts else ""
                    kind = "root" if not m.parts else ("index" if isinstance(last, int) else ("intlike-name" if str(last).lstrip("+-").isdigit() else "name"))
                    if any(isinstance(p, str) and p.lstrip("-").isdigit() and abs(int(p)) > 2**53 - 1 for p in m.parts):
                        kind = "member-name-is-an-integer-beyond-the-index-limit"
                    sig = f"{disc}|last:{kind}"
                    if not any(sig == o[0] for o in out):
                        out.append((sig, {"query": text, "doc": show(tbl.docs[d]["doc"]), "match_parts": list(m.parts), "tagged": rec}, disc))
                    if kind == "member-name-is-an-integer-beyond-the-index-limit" and disc.startswith("pointer-text:"):
                        continue        # the recorded finding must not hide what else is wrong with the other matches
                    return out
    return out


async def _collect(path: Any, doc: Any) -> List[Any]:
    return [m async for m in await path.finditer_async(doc)]


def _edits(m: Any, node: Dict[str, Any], tbl: DocTable, d: int, quick: bool = False) -> str:
    """Apply test / replace / remove at the match's pointer, built through the builder API and (for
    pointer text) given as operation objects and as JSON text; '' when all agree with the specification."""
    from jsonpath import JSONPatch

    orig = canon(tbl.docs[d]["doc"])
    for how in ("pointer-object", "pointer-text"):
        try:
            ptr: Any = m.pointer() if how == "pointer-object" else str(m.pointer())
        except BaseException as e:  # noqa: BLE001
            return f"{how}:pointer()-raised-{exc_family(e)}"
        if how == "pointer-text" and "\\" in ptr:
            continue
        makers = [("", lambda ops: _build(JSONPatch(), ops))]
        if how == "pointer-text" and not quick:
            makers += [("op-objects:", lambda ops: JSONPatch([dict(o) for o in ops])), ("json-text:", lambda ops: JSONPatch(json.dumps(ops))),
                       # the pointer text as a URI fragment would carry it ("%" written %25, everything else as it is), read with URI decoding on
                       ("uri-decoded:", lambda ops: JSONPatch([dict(o, path=o["path"].replace("%", "%25")) for o in ops], uri_decode=True))]
        elif quick and how == "pointer-text":
            continue
        for mname, make in makers:
            steps = [("test", [{"op": "test", "path": ptr, "value": m.obj}], orig, "test-changed-the-document"),
                     ("replace", [{"op": "replace", "path": ptr, "value": NEW}], canon(node["replaced"]), "replace-edited-something-else"),
                     ("replace-null", [{"op": "test", "path": ptr, "value": m.obj}, {"op": "replace", "path": ptr, "value": None},
                                       {"op": "test", "path": ptr, "value": None}], canon(node["nulled"]), "replace-edited-something-else")]
            if m.parts:
                steps.append(("remove", [{"op": "remove", "path": ptr}], canon(node["removed"]), "remove-removed-something-else"))
            for sname, ops, want, wrong in steps:
                try:
                    r = make(ops).apply(tbl.fresh(d))
                    if canon(tag(r)) != want:
                        return f"{how}:{mname}{wrong}"
                except BaseException as e:  # noqa: BLE001
                    return f"{how}:{mname}{sname}-raised-{exc_family(e)}"
    return ""


def _subst(t: Any, new_t: Any) -> Any:
    """The tagged document with the marker string "NEW" replaced by another tagged value."""
    if isinstance(t, dict):
        if t.get("t") == "str" and t.get("s") == [78, 69, 87]:
            return new_t
        return {k: _subst(v, new_t) for k, v in t.items()}
    if isinstance(t, list):
        return [_subst(v, new_t) for v in t]
    return t


def _nested_twice(m: Any, node: Dict[str, Any], tbl: DocTable, d: int) -> str:
    """Replace the matched node by a value with containers inside, edit the inserted value in the result, apply the same
    patch again: the second result is still the document with the node replaced by the value as it was given."""
    from jsonpath import JSONPatch

    nested = {"n": [1, {"k": []}]}
    want = canon(_subst(node["replaced"], tag({"n": [1, {"k": []}]})))
    try:
        patch = JSONPatch().replace(m.pointer(), nested)
        r1 = patch.apply(tbl.fresh(d))
        if canon(tag(r1)) != want:
            return "replace-with-a-container-edited-something-else"
        cur = r1
        for p in m.parts:
            cur = cur[p]
        cur["n"].append("edited-by-caller")
        cur["n"][1]["k"].append("edited-by-caller")
        if canon(tag(patch.apply(tbl.fresh(d)))) != want:
            return "second-application-sees-the-callers-edit-of-the-first-result"
        if nested != {"n": [1, {"k": []}]}:
            return "callers-value-was-modified"
    except BaseException as e:  # noqa: BLE001
        return f"replace-with-a-container-raised-{exc_family(e)}"
    return ""


def _lookalike(v: Any) -> Any:
    """The value with true/false and 1/0 exchanged at every depth (equal to the host, different JSON), or None if there is none."""
    if v is True or v is False:
        return int(v)
    if isinstance(v, int) and v in (0, 1):
        return bool(v)
    if isinstance(v, float) and v in (0.0, 1.0):
        return bool(v)
    if isinstance(v, list):
        w = [_lookalike(x) for x in v]
        return [a if b is None else b for a, b in zip(v, w)] if any(b is not None for b in w) else None
    if isinstance(v, dict):
        w = {k: _lookalike(x) for k, x in v.items()}
        return {k: (v[k] if w[k] is None else w[k]) for k in v} if any(b is not None for b in w.values()) else None
    return None


def _replace_lookalike(m: Any, node: Dict[str, Any], tbl: DocTable, d: int) -> str:
    from jsonpath import JSONPatch

    new = _lookalike(m.obj)
    if new is None:
        return ""
    want = canon(_subst(node["replaced"], tag(new)))
    try:
        r = JSONPatch().replace(m.pointer(), new).apply(tbl.fresh(d))
        if canon(tag(r)) != want:
            return "replace-by-a-boolean-number-look-alike-left-the-old-value"
    except BaseException as e:  # noqa: BLE001
        return f"replace-by-a-look-alike-raised-{exc_family(e)}"
    return ""


def _text_document_twice(m: Any, node: Dict[str, Any], tbl: DocTable, d: int) -> str:
    """The document given as JSON text: patched, the result edited by the caller, the same text patched again."""
    from jsonpath import JSONPatch

    try:
        text = json.dumps(tbl.fresh(d))
        patch = JSONPatch().test(m.pointer(), m.obj).replace(m.pointer(), NEW)
        r1 = patch.apply(text)
        if isinstance(r1, list):
            r1.append("edited-by-caller")
        elif isinstance(r1, dict):
            r1["edited-by-caller"] = True
        if canon(tag(patch.apply(text))) != canon(node["replaced"]):
            return "second-patch-of-the-same-json-text-differs"
    except BaseException as e:  # noqa: BLE001
        return f"patch-of-json-text-raised-{exc_family(e)}"
    return ""


def _build(patch: Any, ops: List[Dict[str, Any]]) -> Any:
    for o in ops:
        if o["op"] == "test":
            patch.test(o["path"], o["value"])
        elif o["op"] == "replace":
            patch.replace(o["path"], o["value"])
        else:
            patch.remove(o["path"])
    return patch


def run(chk: Check, tier: str, seed: int) -> None:
    global _table
    universes = ["one", "names", "namelists"] if tier == "quick" else ["one", "names", "namelists", "list", "two"]
    docs, recs = run_universes(chk, universes)
    _table = DocTable(docs)
    for rec, res in zip(recs, core.pmap(replay, recs)):
        n = sum(len(r) for r in rec["res"])
        chk.traces += 15 * n  # lower bound: 4 + 3x4 + 4 applications per non-root match
        if n:
            chk.nontrivial.add(json.dumps(rec["q"], sort_keys=True))
        for sig, case, what in res:
            chk.violation(sig, case, what)
    d = docs[15]
    for n in d["nodes"][1:4]:
        chk.sample({"doc": show(d["doc"]), "at": list(loc_to_parts(n["loc"])), "pointer": untext(n["ptr"]), "replace_gives": show(n["replaced"]), "remove_gives": show(n["removed"])})
    chk.exhaustive = True
    chk.rule = ("every match of the query universes over the 24 documents (member names digits-only, signed look-alikes, '~', '/', empty, non-ASCII, quotes, "
                "backslashes) x {test, replace, test+replace-with-null+test, remove} through the pointer object and its text, the "
                "text also given as operation objects and as JSON patch text; matches taken from the sync and the async API; traces = patch applications "
                "compared with SetAtLoc / RemoveAtLoc of the specification; non-trivial = query has matches")


def replay_file(case: Dict[str, Any]) -> int:
    global _table
    chk = Check("C20", "quick", 0)
    docs, _ = run_universes(chk, ["names"])
    _table = DocTable(docs)
    res = replay(case["case"]["tagged"])
    for sig, c, what in res:
        print("DIVERGENCE", sig, c["query"], c["match_parts"], c["pointer"])
    return 1 if res else 0
