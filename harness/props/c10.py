"""C10 - a compiled query's string form recompiles to an equivalent query
(spec: the program universes of MC_PathEval, MC_Filter, MC_Ext, MC_Compound with their semantics).

Every program the specification exports (standard queries in every spelling, filter
expression trees, extension syntax, compound queries) is compiled, printed, recompiled
and printed again: the text must compile, be a fixed point, and the recompiled query must
return on every document of the universe what the specification's semantics of the
ORIGINAL AST gives (so a string form that silently changes meaning is caught even if the
original query and its string form agree with each other on nothing else).
"""
from __future__ import annotations

import json
from typing import Any, Dict, List, Tuple

from .. import core
from ..core import Check, canon, exc_family, show, tag, tlc, untag, untext
from ..pathcommon import expected_values, expr_features, load_family, walk
from . import c11

_cdocs: List[Dict[str, Any]] = []


def texts_of(rec: Dict[str, Any]) -> List[str]:
    if "texts" in rec:
        return [untext(t) for t in rec["texts"]]
    return [untext(rec["text"]), untext(rec["text2"])]


def replay(rec: Dict[str, Any]) -> List[Tuple[str, Dict[str, Any], str]]:
    import jsonpath

    feats = "+".join(sorted(expr_features(rec.get("q") or [rec.get("first"), rec.get("rest")])))
    if rec.get("family") == "compound":
        feats = "compound:" + "".join(r["op"] for r in rec["rest"])
    docs = rec["_docs"]
    ctx_t = rec.get("_ctx")
    for text in texts_of(rec):
        if " " in text:
            # look-alike texts compiled by the same environment first (every run of blanks one blank; every blank doubled):
            # inside a quoted name or literal these are other queries, and none of them is this one
            for other in (" ".join(text.split()), text.replace(" ", "  ")):
                if other != text:
                    try:
                        jsonpath.compile(other)
                    except BaseException:  # noqa: BLE001
                        pass
        try:
            p1 = jsonpath.compile(text)
        except BaseException:  # noqa: BLE001  (not an accepted query: not this property's business)
            continue
        try:
            t1 = str(p1)
        except BaseException as e:  # noqa: BLE001
            return [(f"str-raised-{type(e).__name__}|{feats}", {"query": text, "tagged": strip(rec)}, "str() failed")]
        try:
            p2 = jsonpath.compile(t1)
        except BaseException as e:  # noqa: BLE001
            return [(f"string-form-does-not-compile-{exc_family(e)}|{feats}", {"query": text, "string_form": t1, "tagged": strip(rec)}, f"{type(e).__name__}: {e}")]
        t2 = str(p2)
        try:
            from .. import parsetrace

            if parsetrace.normal(parsetrace.project_query(p1)) != parsetrace.normal(parsetrace.project_query(p2)):
                return [(f"string-form-parses-to-another-tree|{feats}", {"query": text, "string_form": t1, "tagged": strip(rec)}, "the parser reads the string form as another program")]
        except parsetrace.Unrepresentable:
            pass
        if t2 != t1:
            return [(f"not-a-fixed-point|{feats}", {"query": text, "string_form": t1, "string_form_of_recompiled": t2, "tagged": strip(rec)}, "str(compile(str(p))) != str(p)")]
        for d in range(len(docs)):
            exp = [canon(v) for v in rec["res"][d]] if rec.get("_vals") else [canon(tag(v)) for v in expected_values(rec, d)]
            doc = untag(docs[d]["doc"])
            kw = {"filter_context": untag(ctx_t)} if ctx_t else {}
            try:
                got = [canon(tag(v)) for v in p2.findall(doc, **kw)]
                disc = "" if got == exp else "string-form-selects-other-values"
            except BaseException as e:  # noqa: BLE001
                disc = f"string-form-evaluate-raised-{exc_family(e)}"
            if disc:
                try:
                    orig_ok = [canon(tag(v)) for v in p1.findall(untag(docs[d]["doc"]), **kw)] == exp
                except BaseException:  # noqa: BLE001
                    orig_ok = False
                if not orig_ok:
                    break  # the original already departs from the specification: other properties' business
                return [(f"{disc}|{feats}", {"query": text, "string_form": t1, "doc": show(docs[d]["doc"]),
                                             "expected_values": str(exp)[:400], "tagged": strip(rec)}, disc)]
    return []


def _string_form(text: str) -> Any:
    import jsonpath

    try:
        return str(jsonpath.compile(text))
    except BaseException:  # noqa: BLE001
        return None


def strip(rec: Dict[str, Any]) -> Dict[str, Any]:
    return {k: v for k, v in rec.items() if not k.startswith("_")} | {"_docs": rec["_docs"], "_ctx": rec.get("_ctx")}


def load(chk: Check, tier: str) -> List[Dict[str, Any]]:
    recs = load_family(chk, "path", ["one", "names", "namelists"] + (["list", "two"] if tier == "thorough" else []))
    recs += load_family(chk, "filter", ["cmp-lits", "cmp-self", "functions", "shapes1"] + (["shapes2"] if tier == "thorough" else []))
    recs += load_family(chk, "ext", ["alias", "keys", "fake", "key", "ctx", "member", "regex", "undef"])
    r = tlc("MC_Compound", c11.CFG.format(n=3), timeout=3000)
    chk.add_tlc(r)
    cdocs = [x for x in r.records if "docs" in x][0]["docs"]
    cctx = [x for x in r.records if "docs" in x][0]["ctx"]
    # (a document that is a string cannot be handed over as a value - the API reads a str argument as JSON text - C11 gives it its own forms)
    keep = [i for i, d in enumerate(cdocs) if d["doc"].get("t") != "str"]
    cdocs = [cdocs[i] for i in keep]
    for x in r.records:
        if "docs" not in x:
            x["res"] = [x["res"][i] for i in keep]
            x["family"] = "compound"
            x["_docs"] = cdocs
            x["_ctx"] = cctx
            x["_vals"] = True
            recs.append(x)
    return recs


FUZZ_DOCS = [[{"a": "ab"}, {"a": "a b"}, {"a": True}, {"a": 1}, {"a": 1e16}, {"a": 15.0}, {"a": "a", "b": [1]}, {"b": 2}, [1, [2]], "s", 1, None, False, {}],
             {"a": [1, 2, {"a": 1, "b": {"a": "b"}}], "b": "a", "1": 1, "é": None},
             [[0], [10, 11, 12, 13, 14, 15], [20, [21, 22, 23], 24], 10 ** 23, 99999999999999991611392],
             # members named like indices (an index selector applied to an object selects the member with the decimal spelling)
             {"a": {"1": "one", "0": "zero", "-1": "minus one", "b": [1]}, "1": {"a": 1}, "-1": [2]}]


def fuzz_roundtrip(s: List[str]) -> List[Tuple[str, Dict[str, Any], str]]:
    """Accepted fuzzed strings (no AST): the string form must compile, be a fixed point and return what the original returns."""
    import copy

    import jsonpath

    text = "".join({"EACUTE": "\u00e9", "SUPER2": "\u00b2", "ARDIGIT1": "\u0661", "HUGE": "9" * 4400, "LIMIT4300": "9" * 4300, "SQRUN": "'" + "\\" * 70, "DQRUN": '"' + "\\" * 70,
                    "RERUN": "/" + "\\" * 70}.get(x, x) for x in s)
    try:
        p1 = jsonpath.compile(text)
    except BaseException:  # noqa: BLE001
        return []
    try:
        t1 = str(p1)
        p2 = jsonpath.compile(t1)
    except BaseException as e:  # noqa: BLE001
        return [(f"fuzzed:string-form-does-not-compile-{exc_family(e)}", {"query": text, "string_form": locals().get("t1")}, f"{type(e).__name__}: {e}")]
    t2 = str(p2)
    if t2 != t1:
        return [("fuzzed:not-a-fixed-point", {"query": text, "string_form": t1, "string_form_of_recompiled": t2}, "str(compile(str(p))) != str(p)")]
    for d in FUZZ_DOCS:
        def ev(p: Any) -> Any:
            try:
                return [canon(tag(v)) for v in p.findall(copy.deepcopy(d), filter_context={"a": 1})]
            except BaseException as e:  # noqa: BLE001
                return "raised-" + exc_family(e)
        if ev(p1) != ev(p2):
            return [("fuzzed:string-form-selects-other-values", {"query": text, "string_form": t1, "doc": d}, "original and string form disagree")]
    return []


def run(chk: Check, tier: str, seed: int) -> None:
    from . import c06

    fuzz: List[List[str]] = []
    for lang, n, mode in (("path", 2 if tier == "quick" else 3, "soup"), ("path", 0, "mutants")):
        r = tlc("MC_Soup", c06.GEN.format(lang=lang, n=n, mode=mode), timeout=3000)
        chk.add_tlc(r)
        fuzz += [x["s"] for x in r.records]
    nacc = 0
    for res in core.pmap(fuzz_roundtrip, fuzz):
        chk.traces += 1
        for sig, case, what in res:
            chk.violation(sig, case, what)
    chk.extra["fuzzed_strings_tried"] = len(fuzz)
    recs = load(chk, tier)
    for rec, res in zip(recs, core.pmap(replay, recs)):
        chk.traces += len(texts_of(rec))
        chk.nontrivial.add(texts_of(rec)[0])
        for sig, case, what in res:
            chk.violation(sig, case, what)
    # ---- the parser itself: tokens and trees of every spelling and of every string form validated against Parser.tla,
    # ---- and Parse o Render = identity (ParseBack.tla)
    from .. import parsecheck

    items: List[Dict[str, Any]] = []
    seen = set()
    for rec in recs:
        prog = {"first": rec["q"]} if "q" in rec else {"first": rec["first"], "rest": rec["rest"]}
        for t in texts_of(rec):
            if t not in seen:
                seen.add(t)
                items.append({"text": t, "lim": None, **prog})
    forms = [x for x in core.pmap(_string_form, [it["text"] for it in items]) if isinstance(x, str)]
    for t in forms:
        if t not in seen:
            seen.add(t)
            items.append({"text": t, "lim": None})
    rejects, counters = parsecheck.validate(chk, items)
    parsecheck.report(chk, rejects, "parser")
    chk.extra["parser_model"] = counters
    chk.traces += counters["recorded"]
    import jsonpath

    for rec in recs[7:9] + recs[-400:-398] + recs[-2:]:
        t = texts_of(rec)[-1]
        try:
            chk.sample({"query": t, "string_form": str(jsonpath.compile(t))})
        except Exception:  # noqa: BLE001
            pass
    chk.exhaustive = True
    chk.rule = ("every program exported by MC_PathEval (one/names/namelists), MC_Filter (literal comparisons, functions, expression shapes), MC_Ext (all "
                "extension universes, six alias spellings) and MC_Compound, in every spelling: compile, str, recompile, str, and evaluate the recompiled query "
                "against the specification's result for the original AST; the tree the parser builds from the string form must be the tree it built from the "
                "original; every spelling and every string form is also lexed and parsed by the real code and the (tokens, tree) pair validated by TLC "
                "against Parser.tla, and the tree of every spelling mapped back to the program it was rendered from (ParseBack.tla); "
                "traces = texts round-tripped + (tokens, tree) records validated; distinct by first spelling")
    chk.assumptions += ["'same matches on every document' is checked on the documents of each program's universe (chosen to distinguish the constructs)",
                        "the canonical text itself is never compared with a model serializer"]


def replay_file(case: Dict[str, Any]) -> int:
    res = replay(case["case"]["tagged"])
    for sig, c, what in res:
        print("DIVERGENCE", sig, c.get("query"), c.get("string_form"))
    return 1 if res else 0
