"""C08 - the async API returns exactly what the sync API returns
(spec: the program universes + semantics of MC_PathEval / MC_Filter / MC_Ext / MC_Compound; MC_Async.tla for schedules).

(A) every exported program x document: findall/finditer and their async twins (compiled,
environment and module level, compound queries, documents wrapped in Mapping / Sequence
classes with a suspending __getitem_async__) must agree on values (identity), order, paths,
parts and error kind - and with the specification.  (B) TLC enumerates the interleavings of
2-3 concurrent evaluations (MC_Async.tla); the real coroutines - one compiled query shared by
all tasks, documents with different roots - are resumed in exactly that order by a
deterministic scheduler, checking after every resumption that what a task has produced is
a prefix of its own result.
"""
from __future__ import annotations

import json
from collections.abc import Mapping, Sequence
from typing import Any, Dict, List, Tuple

from .. import core
from ..core import Check, canon, exc_family, show, tag, tlc, untag, untext
from ..pathcommon import expected_values, expr_features, load_family
from . import c10, c11

ACFG = """CONSTANTS NTasks = {nt}
 MaxLen = {ml}
 N1 = 3
 N2 = 2
 N3 = 1
INIT Init
NEXT {next}
INVARIANT PrefixInv
INVARIANT Export
{props}
"""


class _Suspend:
    def __await__(self) -> Any:
        yield


class Poisoned(RuntimeError):
    """Raised by a lazy mapping for one member name: reading that member is an error, for the sync and the async getter alike."""


POISON: List[Any] = [None]      # the member name that cannot be read (None: every member can)


class AMap(Mapping):  # type: ignore[type-arg]
    def __init__(self, raw: Dict[str, Any]) -> None:
        self.raw = raw
        self._d = {k: wrap(v) for k, v in raw.items()}

    def __getitem__(self, k: Any) -> Any:
        if k == POISON[0] and k in self._d:
            raise Poisoned(k)
        return self._d[k]

    def __iter__(self) -> Any:
        return iter(self._d)

    def __len__(self) -> int:
        return len(self._d)

    async def __getitem_async__(self, k: Any) -> Any:
        await _Suspend()
        if k == POISON[0] and k in self._d:
            raise Poisoned(k)
        return self._d[k]


class ASeq(Sequence):  # type: ignore[type-arg]
    def __init__(self, raw: List[Any]) -> None:
        self.raw = raw
        self._l = [wrap(v) for v in raw]

    def __getitem__(self, i: Any) -> Any:
        return self._l[i]

    def __len__(self) -> int:
        return len(self._l)

    async def __getitem_async__(self, i: Any) -> Any:
        await _Suspend()
        return self._l[i]


def wrap(v: Any) -> Any:
    if isinstance(v, dict):
        return AMap(v)
    if isinstance(v, list):
        return ASeq(v)
    return v


def unwrap(v: Any) -> Any:
    return v.raw if isinstance(v, (AMap, ASeq)) else v


def drive(coro: Any) -> Any:
    """Run a coroutine whose only suspensions are _Suspend (no event loop needed)."""
    try:
        while True:
            coro.send(None)
    except StopIteration as e:
        return e.value


async def collect(ait_coro: Any) -> List[Any]:
    return [m async for m in await ait_coro]


def observe(fn: Any) -> Tuple[str, Any]:
    try:
        return ("ok", fn())
    except BaseException as e:  # noqa: BLE001
        return ("err:" + exc_family(e) + ":" + type(e).__name__, None)


def same_obj(x: Any, y: Any) -> bool:
    x, y = unwrap(x), unwrap(y)
    if x is y:
        return True
    # the fake root wraps the document in a fresh one-element list on every evaluation
    return isinstance(x, list) and isinstance(y, list) and len(x) == 1 and len(y) == 1 and unwrap(x[0]) is unwrap(y[0])


def same_matches(a: List[Any], b: List[Any]) -> str:
    if len(a) != len(b):
        return "different-number-of-matches"
    for x, y in zip(a, b):
        if not same_obj(x.obj, y.obj):
            return "different-values"
        if x.path != y.path:
            return "different-paths"
        if tuple(x.parts) != tuple(y.parts):
            return "different-parts"
    return ""


def replay(rec: Dict[str, Any]) -> List[Tuple[str, Dict[str, Any], str]]:
    import jsonpath

    feats = "compound" if rec.get("family") == "compound" else "+".join(sorted(expr_features(rec["q"])))
    # (a document that is a string cannot be handed over as a value - the API reads a str argument as JSON text - it has its own forms in C11)
    docs = [d for d in rec["_docs"] if d["doc"].get("t") != "str"]
    ctx_t = rec.get("_ctx")
    texts = c10.texts_of(rec)
    env = jsonpath.JSONPathEnvironment()
    for text in (texts[0], texts[-1]):
        try:
            path = jsonpath.compile(text)
        except BaseException:  # noqa: BLE001
            continue
        for d in range(len(docs)):
            kw = {"filter_context": untag(ctx_t)} if ctx_t else {}
            logical = any(w in text for w in ("&&", "||", " and ", " or "))
            for wrapped in (False, True) + (("poison:a", "poison:b") if logical else ()):
                POISON[0] = wrapped.split(":")[1] if isinstance(wrapped, str) else None
                def mk() -> Any:
                    v = untag(docs[d]["doc"])
                    return wrap(v) if wrapped else v
                doc = mk()
                s_kind, s_ms = observe(lambda: list(path.finditer(doc, **kw)))
                variants = [
                    ("finditer_async", lambda: drive(collect(path.finditer_async(doc, **kw))), True),
                    ("findall_async", lambda: drive(path.findall_async(doc, **kw)), False),
                    ("env.findall_async", lambda: drive(env.findall_async(text, doc, **kw)), False),
                    ("env.finditer_async", lambda: drive(collect(env.finditer_async(text, doc, **kw))), True),
                    ("jsonpath.findall_async", lambda: drive(jsonpath.findall_async(text, doc, **kw)), False),
                ]
                for name, fn, is_matches in variants:
                    a_kind, a_val = observe(fn)
                    disc = ""
                    if a_kind != s_kind:
                        disc = f"sync-{s_kind.split(':')[0]}-async-{a_kind.split(':')[0]}" if "err" not in (s_kind[:3], a_kind[:3]) or s_kind[:3] != a_kind[:3] else f"different-error-kind"
                    elif s_kind == "ok":
                        if is_matches:
                            disc = same_matches(s_ms, a_val)
                        elif len(a_val) != len(s_ms) or any(not same_obj(x, m.obj) for x, m in zip(a_val, s_ms)):
                            disc = "different-values"
                    if disc:
                        POISON[0] = None
                        return [(f"{name}:{disc}|{wrapped if isinstance(wrapped, str) else 'wrapped' if wrapped else 'plain'}|{feats}",
                                 {"query": text, "doc": show(docs[d]["doc"]), "wrapped_in_async_containers": wrapped, "sync": s_kind,
                                  "sync_parts": [list(m.parts) for m in (s_ms or [])][:20], "async": a_kind,
                                  "async_result": str(a_val)[:300], "tagged": c10.strip(rec)}, disc)]
                POISON[0] = None
                # and both agree with the specification (plain documents)
                if not wrapped and s_kind == "ok":
                    exp = [canon(v) for v in rec["res"][d]] if rec.get("_vals") else [canon(tag(v)) for v in expected_values(rec, d)]
                    if [canon(tag(m.obj)) for m in s_ms] != exp:
                        break  # sync already departs from the specification: C01/C02/C13's business
        # an object whose member names need escaping in a normalized path, given to every filter program: the sync and the
        # async side build the same paths (agreement only: the specification's documents do not contain these names)
        if "?" in text:
            special = {"it's": 1, "a\\b": 2, "\u0001": 3, 'say "hi"': {"a": 1, "b": [2]}, "\u00e9": {"a": 2}, "\U0001f600": [1, {"a": 1}]}
            kw = {"filter_context": untag(ctx_t)} if ctx_t else {}
            s_kind, s_ms = observe(lambda: list(path.finditer(special, **kw)))
            a_kind, a_ms = observe(lambda: drive(collect(path.finditer_async(special, **kw))))
            disc = ""
            if a_kind != s_kind:
                disc = f"sync-{s_kind.split(':')[0]}-async-{a_kind.split(':')[0]}"
            elif s_kind == "ok":
                disc = same_matches(s_ms, a_ms)
            if disc:
                return [(f"finditer_async:{disc}|names-that-need-escaping|{feats}", {"query": text, "doc": json.dumps(special), "sync": s_kind, "async": a_kind,
                         "sync_paths": [m.path for m in (s_ms or [])][:10], "async_paths": [m.path for m in (a_ms or [])][:10], "tagged": c10.strip(rec)}, disc)]
        # an environment that overrides the documented truthiness hook, and one that is reconfigured between two uses of the
        # same text: whatever they mean, they mean it for the sync and the async entry points alike
        import jsonpath as _jp
        from jsonpath.match import NodeList

        class Hooked(_jp.JSONPathEnvironment):
            def is_truthy(self, obj: Any) -> bool:
                if isinstance(obj, NodeList) and len(obj) == 1 and obj[0].obj in (0, False, None, "", 1):
                    return False
                return super().is_truthy(obj)

        def raising() -> Any:
            # an environment whose functions are the caller's own and raise built-in errors on some arguments (a lookup table,
            # a positional read): whatever escapes the synchronous evaluation escapes the asynchronous one
            from jsonpath.function_extensions import ExpressionType, FilterFunction

            class Table(FilterFunction):
                arg_types = [ExpressionType.VALUE]
                return_type = ExpressionType.VALUE

                def __call__(self, v: Any) -> Any:
                    return {1: 1, 2: 0, "a": 2, None: 3}[v]          # KeyError / TypeError (unhashable) otherwise

            class Nth(FilterFunction):
                arg_types = [ExpressionType.NODES]
                return_type = ExpressionType.VALUE

                def __call__(self, nodes: Any) -> Any:
                    return [10, 20][len(nodes)]                      # IndexError from two nodes on

            class First(FilterFunction):
                arg_types = [ExpressionType.NODES]
                return_type = ExpressionType.VALUE

                def __call__(self, nodes: Any) -> Any:
                    return nodes[0].obj                              # IndexError on an empty node list

            class Known(FilterFunction):
                arg_types = [ExpressionType.VALUE, ExpressionType.VALUE]
                return_type = ExpressionType.LOGICAL

                def __call__(self, s: Any, _p: Any) -> Any:
                    return {"a": True, "ab": False, "b": True}[s]   # KeyError / TypeError otherwise

            e = _jp.JSONPathEnvironment()
            e.function_extensions.update({"length": Table(), "count": Nth(), "value": First(), "match": Known(), "search": Known()})
            return e

        doc0 = untag(docs[0]["doc"])
        kw = {"filter_context": untag(ctx_t)} if ctx_t else {}
        for ename, mk_env in (("is_truthy-hook", Hooked), ("reconfigured", _jp.JSONPathEnvironment), ("functions-that-raise", raising)):
            try:
                henv = mk_env()
                if ename == "reconfigured":
                    drive(henv.findall_async(text, doc0, **kw))
                    list(henv.finditer(text, doc0, **kw))
                    for f in ("length", "count", "match", "search", "value"):
                        henv.function_extensions.pop(f, None)
                    henv.max_int_index, henv.min_int_index = 0, 0
            except BaseException:  # noqa: BLE001
                continue
            for di in (range(len(docs)) if ename == "functions-that-raise" else (0,)):        # (every document: somewhere a function meets what it cannot handle)
                docn = untag(docs[di]["doc"])
                s_kind, s_vals = observe(lambda: [m.obj for m in henv.finditer(text, docn, **kw)])
                for name, fn in (("env.findall_async", lambda: drive(henv.findall_async(text, docn, **kw))),
                                 ("env.finditer_async", lambda: [m.obj for m in drive(collect(henv.finditer_async(text, docn, **kw)))])):
                    a_kind, a_vals = observe(fn)
                    disc = ""
                    if a_kind != s_kind:
                        disc = f"sync-{s_kind.split(':')[0]}-async-{a_kind.split(':')[0]}" if s_kind[:3] != a_kind[:3] or "ok" in (s_kind, a_kind) else "different-error-kind"
                    elif s_kind == "ok" and (len(a_vals) != len(s_vals) or any(not same_obj(x, y) for x, y in zip(a_vals, s_vals))):
                        disc = "different-values"
                    if disc:
                        return [(f"{name}:{disc}|{ename}|{feats}", {"query": text, "doc": show(docs[di]["doc"]), "environment": ename, "sync": s_kind, "async": a_kind,
                                 "tagged": c10.strip(rec)}, disc)]
        # a file-like document that the caller closes once the call has returned: the sync call has read it by then, and so has the async one
        if isinstance(untag(docs[0]["doc"]), (list, dict)):
            import io

            raw0 = json.dumps(untag(docs[0]["doc"]))
            kw = {"filter_context": untag(ctx_t)} if ctx_t else {}

            def sync_closed() -> Any:
                f = io.StringIO(raw0)
                it = path.finditer(f, **kw)
                f.close()
                return [m.obj for m in it]

            def async_closed() -> Any:
                f = io.StringIO(raw0)
                ait = drive(path.finditer_async(f, **kw))
                f.close()

                async def rest() -> Any:
                    return [m.obj async for m in ait]

                return drive(rest())

            s_kind, s_vals = observe(sync_closed)
            a_kind, a_vals = observe(async_closed)
            disc = ""
            if a_kind.split(":")[0] != s_kind.split(":")[0]:
                disc = f"sync-{s_kind.split(':')[0]}-async-{a_kind.split(':')[0]}"
            elif s_kind == "ok" and [canon(tag(v)) for v in a_vals] != [canon(tag(v)) for v in s_vals]:
                disc = "different-values"
            if disc:
                return [(f"finditer_async:{disc}|file-closed-after-the-call|{feats}", {"query": text, "sync": s_kind, "async": a_kind, "tagged": c10.strip(rec)}, disc)]
        # the document as JSON text, and as the JSON text of a string that itself holds JSON text (a string document)
        for form in ("json-text", "json-string-of-json-text"):
            raw = json.dumps(untag(docs[0]["doc"]))
            tdoc = raw if form == "json-text" else json.dumps(raw)
            kw = {"filter_context": untag(ctx_t)} if ctx_t else {}
            s_kind, s_vals = observe(lambda: path.findall(tdoc, **kw))
            for name, fn in (("findall_async", lambda: drive(path.findall_async(tdoc, **kw))),
                             ("finditer_async", lambda: [m.obj for m in drive(collect(path.finditer_async(tdoc, **kw)))])):
                a_kind, a_vals = observe(fn)
                disc = ""
                if a_kind.split(":")[0] != s_kind.split(":")[0]:
                    disc = f"sync-{s_kind.split(':')[0]}-async-{a_kind.split(':')[0]}"
                elif s_kind == "ok" and [canon(tag(v)) for v in a_vals] != [canon(tag(v)) for v in s_vals]:
                    disc = "different-values"
                if disc:
                    return [(f"{name}:{disc}|{form}|{feats}", {"query": text, "doc": tdoc[:300], "sync": s_kind, "async": a_kind, "tagged": c10.strip(rec)}, disc)]
    return []


# ---- (B) schedules ---------------------------------------------------------------------------


def run_schedule(args: Tuple[List[int], Dict[str, Any], List[int]]) -> List[Tuple[str, Dict[str, Any], str]]:
    import jsonpath

    sched, rec, doc_ix = args
    text = untext(rec["texts"][0])
    path = jsonpath.compile(text)  # one compiled query shared by all tasks
    docs = [wrap(untag(rec["_docs"][i]["doc"])) for i in doc_ix]
    expected = [[tuple(m.parts) for m in path.finditer(untag(rec["_docs"][i]["doc"]))] for i in doc_ix]
    outs: List[List[Any]] = [[] for _ in doc_ix]

    async def task(i: int) -> None:
        it = await path.finditer_async(docs[i])
        async for m in it:
            outs[i].append(tuple(m.parts))
            await _Suspend()

    coros = [task(i) for i in range(len(doc_ix))]
    done = [False] * len(coros)

    def resume(i: int) -> str:
        if done[i]:
            return ""
        try:
            coros[i].send(None)
        except StopIteration:
            done[i] = True
        except BaseException as e:  # noqa: BLE001
            done[i] = True
            return f"task-raised-{exc_family(e)}"
        if outs[i] != expected[i][: len(outs[i])]:
            return "produced-something-that-is-not-a-prefix-of-its-result"
        return ""

    disc = ""
    steps = 0
    for t in sched:
        steps += 1
        disc = resume((t - 1) % len(coros))
        if disc:
            break
    k = 0
    while not disc and not all(done) and k < 100000:
        disc = resume(k % len(coros))
        k += 1
    if not disc and outs != expected:
        disc = "final-result-differs-from-a-solo-evaluation"
    for c in coros:
        c.close()
    if not disc:
        return []
    return [(f"schedule:{disc}|{'+'.join(sorted(expr_features(rec['q'])))}", {"query": text, "schedule": sched, "failed_at_step": steps,
             "docs": [show(rec["_docs"][i]["doc"]) for i in doc_ix], "expected_parts": expected, "observed_parts": outs}, disc)]


def run(chk: Check, tier: str, seed: int) -> None:
    recs = load_family(chk, "path", ["one", "names"] + (["list", "two"] if tier == "thorough" else []))
    recs += load_family(chk, "filter", ["cmp-self", "functions", "shapes1"])
    recs += load_family(chk, "ext", ["alias", "keys", "fake", "key", "ctx", "member", "regex", "undef"])
    r = tlc("MC_Compound", c11.CFG.format(n=3), timeout=3000)
    chk.add_tlc(r)
    cinfo = [x for x in r.records if "docs" in x][0]
    for x in r.records:
        if "docs" not in x:
            x.update({"family": "compound", "_docs": cinfo["docs"], "_ctx": cinfo["ctx"], "_vals": True})
            recs.append(x)
    for rec, res in zip(recs, core.pmap(replay, recs)):
        chk.traces += 2 * len(rec["_docs"]) * 2 * 5
        chk.nontrivial.add(c10.texts_of(rec)[0])
        for sig, case, what in res:
            chk.violation(sig, case, what)
    chk.extra["programs_compared_sync_vs_async"] = len(recs)
    # (B) schedules
    roots = load_family(chk, "filter", ["cmp-root"])
    scheds = set()
    plans = [(2, 10, "Next")] + ([(3, 7, "Next")] if tier == "thorough" else [(3, 5, "Next")])
    for nt, ml, nx in plans:
        r = tlc("MC_Async", ACFG.format(nt=nt, ml=ml, next=nx, props="PROPERTY Independence\nPROPERTY Monotone"), timeout=1200)
        chk.add_tlc(r)
        for x in r.records:
            scheds.add((nt, tuple(x["sched"])))
    num = 300 if tier == "quick" else 5000
    r = tlc("MC_Async", ACFG.format(nt=3, ml=40, next="NextSim", props=""), simulate=(num, 41), seed=seed, workers=1, timeout=1200)
    chk.add_tlc(r)
    for x in r.records:
        scheds.add((3, tuple(x["sched"])))
    jobs = []
    ndocs = len(roots[0]["_docs"])
    for i, (nt, s) in enumerate(sorted(scheds)):
        rec = roots[i % len(roots)]
        doc_ix = [(i * 7 + j * 5) % ndocs for j in range(nt)]
        jobs.append((list(s), rec, doc_ix))
    for res in core.pmap(run_schedule, jobs):
        chk.traces += 1
        for sig, case, what in res:
            chk.violation(sig, case, what)
    chk.extra["schedules_replayed"] = len(jobs)
    for j in jobs[500:502]:
        chk.sample({"schedule": j[0], "query": untext(j[1]["texts"][0]), "documents": j[2]})
    chk.sample({"query": c10.texts_of(recs[10])[0], "compared": "finditer vs finditer_async/findall_async (compiled, env, module), plain and async-wrapped documents"})
    chk.rule = ("(A) every program exported by MC_PathEval / MC_Filter / MC_Ext / MC_Compound x every document of its universe (strings and scalars reached by "
                "wildcard, slice, descendant and filter selectors) x {plain, Mapping/Sequence wrappers with suspending __getitem_async__} x 5 async entry points; "
                "(B) every interleaving of 2 tasks up to 10 resumptions and 3 tasks up to 5 (thorough 7), plus seeded random schedules of 40, of one shared "
                "compiled query over documents with different roots; distinct by first spelling / schedule")
    chk.assumptions += ["coroutines are stepped by a deterministic scheduler (send(None)); suspension points exist where the library awaits the item getter"]


def replay_file(case: Dict[str, Any]) -> int:
    c = case["case"]
    if "tagged" in c:
        res = replay(c["tagged"])
        for sig, cc, what in res:
            print("DIVERGENCE", sig, cc["query"])
        return 1 if res else 0
    print("schedule cases are replayed by re-running the check with the same VERIF_SEED")
    return 0
