"""C13 - documented non-standard syntax means what the documentation says
(spec: JsonPath.tla extension constructs, Render.tla alias styles, MC_Ext.tla).

TLC evaluates queries using each extension construct (keys selector, fake root, current
key, filter context, in / contains, =~, <>, undefined / missing, and / or / not, nil / none
/ capitalised literals, rootless and bare-name spellings) with the direct semantics of the
specification, checks them against the desugared standard form, and exports every query in
six alias spellings; the implementation must return the same values for every spelling.
"""
from __future__ import annotations

import json
from typing import Any, Dict, List, Tuple

from .. import core
from ..core import Check, canon, exc_family, show, tag, untag, untext
from ..pathcommon import DocTable, expr_features, run_universes

CFG = """CONSTANTS Universe = "{universe}"
SPECIFICATION Spec
INVARIANT LocOK
INVARIANT Denotation
INVARIANT DesugarAgrees
INVARIANT Export
PROPERTY Terminates
"""
UNIVERSES = ["alias", "keys", "fake", "key", "ctx", "member", "regex", "undef"]
_state: Dict[str, Any] = {}


def value_at(start: Any, loc: List[Dict[str, Any]]) -> Any:
    cur = start
    for st in loc:
        if st["k"] == "kname":
            return untext(st["s"])
        cur = cur[untext(st["s"])] if st["k"] == "key" else cur[st["i"]]
    return cur


def replay(rec: Dict[str, Any]) -> List[Tuple[str, Dict[str, Any], str]]:
    import jsonpath

    docs = _state["docs"]
    ctx_t = _state["ctx"]
    root = rec["q"]["root"]
    bad: List[Tuple[str, Dict[str, Any], str]] = []
    for si, t in enumerate(rec["texts"]):
        text = untext(t)
        try:
            path = jsonpath.compile(text)
        except BaseException as e:  # noqa: BLE001
            feats = '+'.join(sorted(expr_features(rec['q'])))
            if any(sel.get("k") == "name" and untext(sel["s"])[:1] == "_" for seg in rec["q"]["segs"] for sel in seg["sels"]) and "['_" not in text and '["_' not in text:
                feats = "bare-name-begins-with-the-filter-context-spelling"
            bad.append((f"compile-raised-{exc_family(e)}|{feats}" if feats.startswith("bare-name") else f"compile-raised-{exc_family(e)}|style{si}|{feats}",
                        {"query": text, "tagged": rec}, f"documented syntax rejected: {type(e).__name__}: {e}"))
            if feats.startswith("bare-name"):
                continue        # the recorded finding: go on with the other spellings
            return bad
        for d, dt in enumerate(docs):
            doc = untag(dt["doc"])
            ctx = untag(ctx_t)
            ctx2 = untag(_state["ctx2"])
            disc = ""
            obs_vals: Any = []
            # the same compiled query on the same document object: context 1, context 2, context 1 again
            for which, c, key in (("", ctx, "res"), ("second-context:", ctx2, "res2"), ("first-context-again:", ctx, "res")):
                start = [doc] if root == "^" else (c if root == "_" else doc)
                exp = [canon(tag(value_at(start, l))) for l in rec[key][d]]
                try:
                    obs_vals = path.findall(doc, filter_context=c) if which else jsonpath.findall(text, doc, filter_context=c)
                    obs = [canon(tag(v)) for v in obs_vals]
                    if obs != exp:
                        disc = which + "different-values"
                    elif canon(tag(doc)) != canon(dt["doc"]):
                        disc = which + "document-modified"
                    elif canon(tag(c)) != canon(ctx_t if key == "res" else _state["ctx2"]):
                        disc = which + "filter-context-modified"
                except BaseException as e:  # noqa: BLE001
                    disc = f"{which}evaluate-raised-{exc_family(e)}"
                if disc:
                    break
            if disc:
                sig = f"{disc}|{rec['universe']}|{'+'.join(sorted(expr_features(rec['q'])))}"
                return bad + [(sig, {"query": text, "style": si, "standard_spelling": untext(rec["texts"][0]), "doc": show(dt["doc"]),
                               "filter_context": show(ctx_t), "second_filter_context": show(_state["ctx2"]), "expected_values": [show(tag(value_at([untag(dt["doc"])] if root == "^" else (untag(ctx_t) if root == "_" else untag(dt["doc"])), l))) for l in rec["res"][d]],
                               "observed_values": obs_vals, "tagged": rec}, disc)]
    return bad[:1]


def replay_random_values(rec: Dict[str, Any]) -> List[Tuple[str, Dict[str, Any], str]]:
    """A random (document, query with extension constructs) pair drawn by MC_PathRandom: values compared."""
    import jsonpath

    exp = [canon(v) for v in rec["vals"]]
    for si, t in enumerate(rec["texts"]):
        text = untext(t)
        doc = untag(rec["doc"])
        ctx = untag(rec["ctx"])
        try:
            obs_vals = jsonpath.findall(text, doc, filter_context=ctx)
            disc = "" if [canon(tag(v)) for v in obs_vals] == exp else "different-values"
            if not disc and canon(tag(doc)) != canon(rec["doc"]):
                disc = "document-modified"
        except BaseException as e:  # noqa: BLE001
            disc = ("compile-" if isinstance(e, jsonpath.JSONPathSyntaxError) else "") + f"raised-{exc_family(e)}"
            obs_vals = []
        if disc:
            return [(f"random:{disc}|style{si}|{'+'.join(sorted(expr_features(rec['q'])))}",
                     {"query": text, "standard_spelling": untext(rec["texts"][0]), "doc": show(rec["doc"]), "filter_context": show(rec["ctx"]),
                      "expected_values": [show(v) for v in rec["vals"]], "observed_values": obs_vals, "tagged": rec}, disc)]
    return []


def load(chk: Check) -> List[Dict[str, Any]]:
    recs: List[Dict[str, Any]] = []
    for u in UNIVERSES:
        r = core.tlc("MC_Ext", CFG.format(universe=u), timeout=1200)
        chk.add_tlc(r)
        for x in r.records:
            if "docs" in x:
                _state["docs"] = x["docs"]
                _state["ctx"] = x["ctx"]
                _state["ctx2"] = x["ctx2"]
            else:
                x["universe"] = u
                recs.append(x)
    return recs


def run(chk: Check, tier: str, seed: int) -> None:
    recs = load(chk)
    for rec in recs:
        res = replay(rec)
        chk.traces += len(rec["texts"]) * len(_state["docs"])
        if any(rec["res"]):
            chk.nontrivial.add(json.dumps(rec["q"], sort_keys=True))
        for sig, case, what in res:
            chk.violation(sig, case, what)
    from ..pathcommon import random_cases

    rnd = random_cases(chk, filters=True, num=6000 if tier == "quick" else 200000, seed=seed, depth=3, segs=3, ext=True)
    for rec, res in zip(rnd, core.pmap(replay_random_values, rnd)):
        chk.traces += 2
        if rec["res"]:
            chk.nontrivial.add(json.dumps((rec["q"], rec["doc"]), sort_keys=True))
        for sig, case, what in res:
            chk.violation(sig, case, what)
    chk.extra["random_document_query_pairs_with_extensions"] = len(rnd)
    for rec in recs[3:5] + recs[40:42] + recs[-2:]:
        chk.sample({"universe": rec["universe"], "spellings": [untext(t) for t in rec["texts"][:3]]})
    chk.exhaustive = True
    chk.rule = ("terminal states of MC_Ext.tla: ~120 queries covering each extension construct (in lists, after descendant segments, nested in filters, as function "
                "arguments) x 6 alias spellings x 4 documents with a filter-context mapping; the specification's direct semantics is checked against the "
                "desugared standard form (DesugarAgrees); non-trivial = selects something; distinct by AST")
    chk.assumptions += ["membership universes contain no boolean/number look-alike pairs (the statement does not say which equality `in` uses)"]


def replay_file(case: Dict[str, Any]) -> int:
    chk = Check("C13", "quick", 0)
    load(chk)
    t = case["case"]["tagged"]
    res = replay_random_values(t) if "vals" in t else replay(t)
    for sig, c, what in res:
        print("DIVERGENCE", sig, c["query"], c["expected_values"], c["observed_values"])
    return 1 if res else 0
