"""C05 - JSON Patch application conforms to RFC 6902 (spec: Patch.tla, MC_Patch.tla).

G mode: TLC explores the patch state machine (every single operation over the
document universe exhaustively; operation sequences exhaustively over a reduced
universe and by simulation beyond) and exports every behaviour with the document
the specification reaches after each operation.  Each behaviour is replayed into
jsonpath.patch: every prefix of the operation list is applied to a freshly built
copy and the result (or error kind) compared with the specification's state.
"""
from __future__ import annotations

import copy
import json
from typing import Any, Dict, List, Tuple

from .. import core
from ..core import Check, canon, exc_family, show, tag, tlc, untag, untext

CFG = """CONSTANTS MaxOps = {maxops}
 Universe = "{universe}"
INIT Init
NEXT Next
INVARIANT TypeOK
INVARIANT Export
{extra}
"""


def op_dict(h: Dict[str, Any]) -> Dict[str, Any]:
    d: Dict[str, Any] = {"op": h["op"], "path": untext(h["path"])}
    if h["op"] in ("move", "copy"):
        d["from"] = untext(h["from"])
    if h["op"] in ("add", "replace", "test", "addne", "addap"):
        d["value"] = untag(h["value"])
    return d


def _floats(v: Any) -> Any:
    if isinstance(v, bool) or v is None or isinstance(v, str):
        return v
    if isinstance(v, int):
        return float(v)
    if isinstance(v, list):
        return [_floats(x) for x in v]
    if isinstance(v, dict):
        return {k: _floats(x) for k, x in v.items()}
    return v


def op_dict_floats(o: Dict[str, Any]) -> Dict[str, Any]:
    d = copy.deepcopy(o)
    if "value" in d:
        d["value"] = _floats(d["value"])
    return d


def tok_class(doc: Any, ptr: str) -> str:
    """Describe the last token of a pointer relative to a Python document (for signatures)."""
    if ptr == "":
        return "root"
    toks = [t.replace("~1", "/").replace("~0", "~") for t in ptr.split("/")[1:]]
    cur = doc
    for t in toks[:-1]:
        if isinstance(cur, dict) and t in cur:
            cur = cur[t]
        elif isinstance(cur, list) and t.isdigit() and (t == "0" or t[0] != "0") and int(t) < len(cur):
            cur = cur[int(t)]
        else:
            return "parent-missing"
    t = toks[-1]
    if isinstance(cur, list):
        if t == "-":
            return "arr:dash"
        if t.isdigit() and t.isascii():
            if len(t) > 1 and t[0] == "0":
                return "arr:leading-zero"
            i = int(t)
            return "arr:existing" if i < len(cur) else ("arr:len" if i == len(cur) else "arr:beyond")
        return "arr:non-index"
    if isinstance(cur, dict):
        look = "intlike" if t.lstrip("+-").isdigit() else "name"
        return f"obj:{'existing' if t in cur else 'new'}:{look}"
    return "scalar-parent"


def observe(ops: List[Dict[str, Any]], doc_t: Dict[str, Any], entry: str) -> Dict[str, Any]:
    import jsonpath
    from jsonpath import JSONPatch

    doc = untag(doc_t)
    try:
        if entry == "apply":
            out = jsonpath.patch.apply(copy.deepcopy(ops), doc)
        elif entry == "builder-with-pointers-from-parts":
            # the same operations through the builder, every pointer an object built from its (string) reference tokens
            from jsonpath import JSONPointer

            def ptr(text: str) -> Any:
                return JSONPointer.from_parts([t.replace("~1", "/").replace("~0", "~") for t in text.split("/")[1:]], unicode_escape=False)

            patch = JSONPatch()
            for o in copy.deepcopy(ops):
                if o["op"] in ("move", "copy"):
                    getattr(patch, o["op"])(ptr(o["from"]), ptr(o["path"]))
                elif o["op"] == "remove":
                    patch.remove(ptr(o["path"]))
                else:
                    getattr(patch, o["op"])(ptr(o["path"]), o["value"])
            out = patch.apply(doc)
        elif entry == "json-text-patched-twice":
            # the document given as JSON text: patched, the result edited by the caller, the same text patched again
            text_doc = json.dumps(untag(doc_t))
            patch = JSONPatch(copy.deepcopy(ops))
            try:
                first = patch.apply(text_doc)
                if isinstance(first, list):
                    first.append("edited-by-caller")
                elif isinstance(first, dict):
                    first["edited-by-caller"] = True
            except Exception:  # noqa: BLE001
                pass
            out = patch.apply(text_doc)
        elif entry == "values-spelled-as-floats":
            # the same numbers written 1.0 for 1 in the operations (the document keeps its spelling): equal JSON values
            fops = [op_dict_floats(o) for o in ops]
            out = JSONPatch(fops).apply(doc)
        elif entry == "after-a-patch-read-with-other-options":
            # somebody else's patch, read with URI decoding on and escape decoding off, holds the same pointer texts:
            # how a text is read belongs to the patch it is given to
            try:
                JSONPatch(copy.deepcopy(ops), unicode_escape=False, uri_decode=True).apply(untag(doc_t))
            except Exception:  # noqa: BLE001
                pass
            out = JSONPatch(copy.deepcopy(ops)).apply(doc)
        elif entry == "JSONPatch-applied-twice":
            # one patch object, two documents: the second application must not see anything of the first
            patch = JSONPatch(copy.deepcopy(ops))
            try:
                first = patch.apply(untag(doc_t))
                if isinstance(first, (list, dict)):
                    first.clear()      # what the caller does with a result is the caller's business
            except Exception:  # noqa: BLE001
                pass
            out = patch.apply(doc)
        else:
            out = JSONPatch(copy.deepcopy(ops)).apply(doc)
    except BaseException as e:  # noqa: BLE001
        fam = exc_family(e)
        return {"ok": False, "fam": fam, "cls": type(e).__name__}
    return {"ok": True, "doc": tag(out)}


def judge(exp: Dict[str, Any], obs: Dict[str, Any]) -> str:
    """'' if the observation is what the specification allows, else a discrepancy kind."""
    if exp.get("t") == "error":
        kind = exp["kind"]
        if obs["ok"]:
            return "no-error"
        fam = obs["fam"]
        if kind == "test":
            return "" if fam == "patch-test" else f"raised-{fam}"
        return "" if fam in ("patch", "patch-test") else f"raised-{fam}"
    if not obs["ok"]:
        return f"raised-{obs['fam']}"
    if obs["doc"].get("t") == "foreign" or "foreign" in json.dumps(obs["doc"]):
        return "non-json-result"
    return "" if canon(obs["doc"]) == canon(exp) else "wrong-document"


def replay(rec: Dict[str, Any]) -> List[Tuple[str, Dict[str, Any], str]]:
    """Replay one exported behaviour; returns (signature, case, what) for each divergence."""
    out = []
    hist = rec["hist"]
    ops = [op_dict(h) for h in hist]
    for k in range(1, len(hist) + 1):
        exp = hist[k - 1]["after"]
        # (the patch read with other options comes first: nothing in this process has seen these pointer texts under the default options yet)
        for entry in ("after-a-patch-read-with-other-options", "apply", "JSONPatch", "JSONPatch-applied-twice", "json-text-patched-twice",
                      "builder-with-pointers-from-parts", "values-spelled-as-floats"):
            obs = observe(ops[:k], rec["doc0"], entry)
            disc = judge(exp, obs)
            if disc:
                h = hist[k - 1]
                before = untag(rec["doc0"]) if k == 1 else (untag(hist[k - 2]["after"]))
                feat = tok_class(before, ops[k - 1]["path"])
                if h["op"] in ("move", "copy"):
                    feat += "<-" + tok_class(before, ops[k - 1]["from"])
                expk = "error:" + exp["kind"] if exp.get("t") == "error" else "ok"
                sig = f"{h['op']}|{feat}|expected={expk}|{disc}"
                case = {
                    "doc": show(rec["doc0"]),
                    "ops": ops[:k],
                    "entry": entry,
                    "expected": show(exp) if exp.get("t") != "error" else exp,
                    "observed": show(obs.get("doc")) if obs["ok"] else obs,
                    "tagged": {"doc0": rec["doc0"], "hist": hist[:k]},
                }
                out.append((sig, case, f"{entry} step {k}: {disc}"))
                break
        else:
            continue
        break  # later steps depend on this one
    return out


def nontrivial_key(rec: Dict[str, Any]) -> Any:
    h = rec["hist"]
    changed = any(x["after"].get("t") == "error" or canon(x["after"]) != canon(rec["doc0"]) for x in h)
    return (json.dumps(rec, sort_keys=True) if changed else None)


def run(chk: Check, tier: str, seed: int) -> None:
    recs: List[Dict[str, Any]] = []
    # (1) every single operation over the document universe, exhaustively; Laws checked in every state
    r = tlc("MC_Patch", CFG.format(maxops=1, universe="single", extra="INVARIANT Laws\nINVARIANT TestSeparatesBoolNum"), timeout=1200)
    chk.add_tlc(r)
    recs += r.records
    n_single = len(r.records)
    # (2) operation sequences of length 2 exhaustively over the reduced universe
    if tier == "thorough":
        r = tlc("MC_Patch", CFG.format(maxops=2, universe="seq", extra=""), timeout=3000)
        chk.add_tlc(r)
        recs += r.records
    # (3) longer sequences by a seeded random walk (NextSim)
    num, depth = (1500, 7) if tier == "quick" else (40000, 9)
    r = tlc("MC_Patch", CFG.format(maxops=depth - 1, universe="seq", extra="").replace("NEXT Next", "NEXT NextSim"),
            simulate=(num, depth), seed=seed, workers=1, timeout=3000)
    chk.add_tlc(r)
    seen = set()
    for x in r.records:
        k = json.dumps(x, sort_keys=True)
        if k not in seen:
            seen.add(k)
            recs.append(x)
    chk.extra["single_operation_cases"] = n_single
    chk.extra["sequence_cases"] = len(recs) - n_single
    for rec, res in zip(recs, core.pmap(replay, recs)):
        chk.traces += 1
        if len(rec["hist"]) > 1:
            chk.sample({"doc": show(rec["doc0"]), "ops": [op_dict(h) for h in rec["hist"]]}, 4)
        nk = nontrivial_key(rec)
        if nk is not None:
            chk.nontrivial.add(hash(nk))
        for sig, case, what in res:
            chk.violation(sig, case, what)
    chk.sample({"doc": show(recs[0]["doc0"]), "ops": [op_dict(h) for h in recs[0]["hist"]]})
    chk.exhaustive = False
    chk.rule = ("behaviours of MC_Patch.tla: every single operation (6 kinds x paths = existing locations, one-step "
                "extensions, '-', index=len/len+1, leading zero, look-alike member names, below scalars x values) over "
                f"{'DocsSingle'} exhaustively, sequences by BFS/simulation; non-trivial = some step changes the document or fails; "
                "distinct by full (document, operations) content")
    chk.assumptions += ["pointer texts contain no backslash (escape decoding left on)",
                        "a test on a missing target may raise either kind of patch error"]


def replay_file(case: Dict[str, Any]) -> int:
    t = case["case"]["tagged"]
    res = replay(t)
    for sig, c, what in res:
        print("DIVERGENCE", sig, what)
        print(json.dumps({k: v for k, v in c.items() if k != "tagged"}, indent=1, default=str))
    return 1 if res else 0
