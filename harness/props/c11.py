"""C11 - all query entry points agree with one another on every input
(spec: JsonPath.tla Compound, MC_Compound.tla).

TLC folds compound queries (1..N operands over | and &, every arrangement) operator by
operator over all documents and exports the expected node list; the harness evaluates
each through the module-level, environment-level and compiled forms of findall,
finditer, match and query, with the document given as parsed value, JSON text and file
object, and requires every one to agree with the specification.
"""
from __future__ import annotations

import io
import json
from typing import Any, Dict, List, Tuple

from .. import core
from ..core import Check, canon, exc_family, show, tag, tlc, untag, untext
from ..pathcommon import walk

CFG = """CONSTANTS MaxOperands = {n}
SPECIFICATION Spec
INVARIANT FoldAgrees
INVARIANT Export
PROPERTY Monotone
PROPERTY Terminates
"""
_docs: List[Dict[str, Any]] = []
_ctx: Dict[str, Any] = {}


def entry_points(text: str) -> List[Tuple[str, Any]]:
    import jsonpath as _jp

    class _K:
        """The library's entry points with the caller's filter context always supplied."""

        def __init__(self, target: Any) -> None:
            self._t = target

        def __getattr__(self, name: str) -> Any:
            fn = getattr(self._t, name)
            if name in ("findall", "finditer", "match", "query"):
                return lambda *a: fn(*a, filter_context=untag(_ctx["ctx"]))
            return fn

    jsonpath = _K(_jp)

    # another environment of the same class, with another function under a standard name, uses the same text first:
    # which functions a text means belongs to the environment it is given to
    try:
        from jsonpath.function_extensions import ExpressionType, FilterFunction

        class Ninety(FilterFunction):
            arg_types = [ExpressionType.NODES]
            return_type = ExpressionType.VALUE

            def __call__(self, *_a: Any) -> Any:
                return 90

        other = _jp.JSONPathEnvironment()
        other.function_extensions["count"] = Ninety()
        for fn in (other.findall, lambda t, d: list(other.finditer(t, d)), other.match):
            fn(text, {"a": [1, [2]], "b": [3]})
    except Exception:  # noqa: BLE001
        pass
    env = _K(_jp.JSONPathEnvironment())
    compiled = _jp.compile(text)
    if hasattr(compiled, "union"):
        # deriving other queries from a compiled compound leaves the compound as it was
        try:
            compiled.union(_jp.compile("$"))
            compiled.intersection(_jp.compile("$.nowhere"))
        except Exception:  # noqa: BLE001
            pass
    comp = _K(compiled)
    ecomp = _K(env.compile(text))

    def vals(it: Any) -> List[Any]:
        return [m.obj for m in it]

    def first(m: Any) -> List[Any]:
        return [] if m is None else [m.obj]

    return [
        ("jsonpath.findall", lambda d: jsonpath.findall(text, d)),
        ("jsonpath.finditer", lambda d: vals(jsonpath.finditer(text, d))),
        ("jsonpath.match", lambda d: first(jsonpath.match(text, d))),
        ("jsonpath.query.values", lambda d: list(jsonpath.query(text, d).values())),
        ("jsonpath.query", lambda d: vals(jsonpath.query(text, d))),
        ("env.findall", lambda d: env.findall(text, d)),
        ("env.finditer", lambda d: vals(env.finditer(text, d))),
        ("env.match", lambda d: first(env.match(text, d))),
        ("env.query.values", lambda d: list(env.query(text, d).values())),
        ("compiled.findall", lambda d: comp.findall(d)),
        ("compiled.finditer", lambda d: vals(comp.finditer(d))),
        ("compiled.match", lambda d: first(comp.match(d))),
        ("compiled.query.values", lambda d: list(comp.query(d).values())),
        ("env.compiled.findall", lambda d: ecomp.findall(d)),
        ("env.compiled.finditer", lambda d: vals(ecomp.finditer(d))),
    ]


# documents with boolean / number look-alikes on both sides of an intersection: the statement leaves the equality
# of `&` open, so the specification gives no expected result - but the entry points still have to agree with one another
LOOKALIKE = [{"a": [1, True, 0, False, 1.0, [1], [True], {"c": 1}, 2], "b": [True, 1, False, [True], {"c": True}, 2.0], "c": 1},
             {"a": [[0, [False]], {"c": [1]}], "b": [[False, [0]], {"c": [True]}, 3]}]


def _after_header(text: str) -> Any:
    """A readable file whose first line the caller has consumed already: the document is what is still to be read."""
    f = io.StringIO("# exported 2026-10-05\n" + text)
    f.readline()
    return f


def agreement_only(text: str, eps: List[Tuple[str, Any]], ops: str, rec: Dict[str, Any]) -> List[Tuple[str, Dict[str, Any], str]]:
    import copy

    for n, base in enumerate(LOOKALIKE):
        ref = None
        for fname, mk in (("parsed", lambda: copy.deepcopy(base)), ("json-text", lambda: json.dumps(base)), ("file", lambda: io.StringIO(json.dumps(base)))):
            for ename, fn in eps:
                try:
                    got = ("ok", [canon(tag(v)) for v in fn(mk())])
                except BaseException as e:  # noqa: BLE001
                    got = ("raised-" + exc_family(e), [])
                if ref is None:
                    ref = (ename, fname, got)
                want = (ref[2][0], ref[2][1][:1]) if ename.endswith("match") else ref[2]
                if got != want:
                    return [(f"{ename}|{fname}|differs-from-{ref[0]}-on-look-alikes|{ops}", {"query": text, "doc": json.dumps(base), "entry": ename, "form": fname,
                             "reference_entry": ref[0], "reference": str(ref[2])[:300], "observed": str(got)[:300], "tagged": rec}, "entry points disagree")]
    return []


def replay(rec: Dict[str, Any]) -> List[Tuple[str, Dict[str, Any], str]]:
    ops = "".join(r["op"] for r in rec["rest"]) or "simple"
    for tkey in ("text", "text2"):
        text = untext(rec[tkey])
        try:
            eps = entry_points(text)
        except BaseException as e:  # noqa: BLE001
            return [(f"compile-raised-{exc_family(e)}|{ops}", {"query": text, "tagged": rec}, f"{type(e).__name__}: {e}")]
        for d, dt in enumerate(_docs):
            base = untag(dt["doc"])
            exp = [canon(v) for v in rec["res"][d]]
            forms = [("parsed", lambda: untag(dt["doc"]))]
            if isinstance(base, str):
                # a string document: decoded once, whichever way it comes in (never "parsed": a str argument is JSON text)
                forms = [("string-as-json-text", lambda: json.dumps(base)), ("string-in-a-file", lambda: io.StringIO(json.dumps(base))),
                         ("string-in-a-bytes-file", lambda: io.BytesIO(json.dumps(base).encode()))]
            if isinstance(base, (list, dict)):
                forms += [("json-text", lambda: json.dumps(base)), ("file", lambda: io.StringIO(json.dumps(base))),
                          ("file-handed-over-after-a-header-line-was-read", lambda: _after_header(json.dumps(base))),
                          ("json-text-indented", lambda: "\n  " + json.dumps(base, indent=2) + "\n"), ("file-bytes", lambda: io.BytesIO(json.dumps(base).encode())),
                          ("file-bytes-utf16", lambda: io.BytesIO(json.dumps(base).encode("utf-16"))), ("file-bytes-bom", lambda: io.BytesIO(b"\xef\xbb\xbf" + json.dumps(base).encode()))]
            for fname, mk in forms:
                for ename, fn in eps:
                    want = exp[:1] if ename.endswith("match") else exp
                    try:
                        got = [canon(tag(v)) for v in fn(mk())]
                        disc = "" if got == want else "differs-from-specification"
                    except BaseException as e:  # noqa: BLE001
                        disc = f"raised-{exc_family(e)}"
                        got = []
                    if disc:
                        return [(f"{ename}|{fname}|{disc}|{ops}", {"query": text, "doc": show(dt["doc"]), "entry": ename, "form": fname,
                                 "expected": [show(v) for v in rec["res"][d]], "observed": str(got)[:300], "tagged": rec}, disc)]
                    if fname == "json-text" and ename in ("jsonpath.findall", "compiled.finditer", "compiled.query.values", "env.query.values"):
                        # the caller edits what it was given; the same text evaluated again still means the same document
                        try:
                            for v in fn(mk()):
                                if isinstance(v, list):
                                    v.append("edited-by-caller")
                                elif isinstance(v, dict):
                                    v["edited-by-caller"] = True
                            if [canon(tag(v)) for v in fn(mk())] != want:
                                return [(f"{ename}|{fname}|second-evaluation-of-the-same-text-differs|{ops}", {"query": text, "doc": show(dt["doc"]), "entry": ename,
                                         "form": fname, "expected": [show(v) for v in rec["res"][d]], "tagged": rec}, "stale document")]
                        except BaseException as e:  # noqa: BLE001
                            return [(f"{ename}|{fname}|second-evaluation-raised-{exc_family(e)}|{ops}", {"query": text, "doc": show(dt["doc"]), "tagged": rec}, str(e))]
        if tkey == "text":
            bad = agreement_only(text, eps, ops, rec)
            if bad:
                return bad
    return []


def run(chk: Check, tier: str, seed: int) -> None:
    global _docs
    r = tlc("MC_Compound", CFG.format(n=3 if tier == "quick" else 4), timeout=3000)
    chk.add_tlc(r)
    recs = []
    for x in r.records:
        if "docs" in x:
            _docs = x["docs"]
            _ctx["ctx"] = x["ctx"]
        else:
            recs.append(x)
    for rec, res in zip(recs, core.pmap(replay, recs)):
        chk.traces += 2 * len(_docs) * 15 * 3
        if any(rec["res"]) and rec["rest"]:
            chk.nontrivial.add(untext(rec["text"]))
        for sig, case, what in res:
            chk.violation(sig, case, what)
    for rec in recs[10:12] + recs[-3:]:
        chk.sample({"query": untext(rec["text"]), "expected_doc0": [show(v) for v in rec["res"][0]]})
    chk.exhaustive = True
    chk.rule = ("terminal states of MC_Compound.tla: compound queries with 1-3 (thorough 4) operands from 6 simple queries over | and & in every arrangement, 2 "
                "spellings x 5 documents x 15 entry points x {parsed, JSON text, file object}; non-trivial = compound with a non-empty result; distinct by text")
    chk.assumptions += ["intersection universes contain no boolean/number look-alike pairs (the statement leaves the equality of `&` open); on two documents "
                        "that do contain them the entry points are only required to agree with one another"]


def replay_file(case: Dict[str, Any]) -> int:
    global _docs
    r = tlc("MC_Compound", CFG.format(n=1))
    _docs = [x for x in r.records if "docs" in x][0]["docs"]
    _ctx["ctx"] = [x for x in r.records if "docs" in x][0]["ctx"]
    res = replay(case["case"]["tagged"])
    for sig, c, what in res:
        print("DIVERGENCE", sig, c["query"], c["expected"], c["observed"])
    return 1 if res else 0
