"""C09 - evaluation is pure: read-only, repeatable, unaffected by caching or interleaving
(spec: MC_Sessions.tla - lazy iterators, memo cells per resolution, one-shot evaluations, re-compilation).

TLC checks on the model that every interleaving of iterator advancement, one-shot
evaluation and re-compilation leaves each iterator producing the result of a solo
evaluation (SchedIndependence), that cells are written once with values of their own
resolution (CacheTransparency, OneWriter) - and, as a self-test, that the wrong design
SharedCells=TRUE violates it.  Every exported history is replayed into the real generators
with filter caching on and off; after every action documents, filter contexts and the
compiled query are compared with pristine copies.
"""
from __future__ import annotations

import copy
import json
import os
from typing import Any, Dict, List, Tuple

from .. import core
from ..core import Check, MachineryError, canon, exc_family, loc_to_parts, show, tag, tlc, untag, untext
from ..pathcommon import walk

CFG = """CONSTANTS NIter = {ni}
 MaxLen = {ml}
 SharedCells = {shared}
 QueryIx = {q}
INIT Init
NEXT {next}
INVARIANT SchedIndependence
INVARIANT CacheTransparency
INVARIANT FindAllIsExpected
INVARIANT Export
{props}
"""
_info: Dict[str, Any] = {}
NQUERIES = 13


def normalise(sink: List[Dict[str, Any]]) -> List[Dict[str, Any]]:
    """Hook events with object ids renamed to small integers (TLC integers are 32 bit)."""
    ids: Dict[int, int] = {}
    out = []
    for e in sink:
        if e["e"] == "cell-created":
            out.append({"e": "created", "rid": e["rid"], "cell": ids.setdefault(e["cell"], len(ids) + 1), "fresh": bool(e["fresh"])})
        elif e["e"] == "cell":
            out.append({"e": "cell", "cell": ids.setdefault(e["cell"], len(ids) + 1), "owner": e["owner"], "reader": e["reader"], "hit": bool(e["hit"])})
    return out


def replay(rec: Dict[str, Any]) -> Dict[str, Any]:
    """Replay one history; returns {'viol': divergences, 'events': hook events of the caching run}."""
    viol = _replay(rec)
    ev = rec.pop("_events", [])
    return {"viol": viol, "events": ev if rec.get("_trace", True) else []}


def _other_environment() -> Any:
    """An environment whose function registry, tokens and limits differ (its own business only)."""
    import jsonpath
    from jsonpath.function_extensions import ExpressionType, FilterFunction

    class Ninety(FilterFunction):
        arg_types = [ExpressionType.VALUE]
        return_type = ExpressionType.VALUE

        def __call__(self, *_a: Any) -> Any:
            return 90

    class Nodes(FilterFunction):
        arg_types = [ExpressionType.NODES]
        return_type = ExpressionType.VALUE

        def __call__(self, *_a: Any) -> Any:
            return 90

    class Other(jsonpath.JSONPathEnvironment):
        max_int_index = 3
        min_int_index = -3

        def setup_function_extensions(self) -> None:
            super().setup_function_extensions()
            self.function_extensions["length"] = Ninety()
            self.function_extensions["count"] = Nodes()
            self.function_extensions.pop("value", None)

    try:
        return Other(filter_caching=False, unicode_escape=False, well_typed=False)
    except Exception:  # noqa: BLE001
        return None


UNTYPED = ["$.c[?$.r[*] == $.r[*]]", "$.c[?$.c[*].a >= $.c[*].a]", "$..[?$..a != $..a]", "$.c[?_.v == _.v && $.c[*] == $.c[*]]", "$.c[?$.c[*].a == @.a]"]


HISTORY_QUERIES = ["$.c[?match(@.s, $.pat)]", "$.c[?search(@.s, $.pat)]", "$.c[?match(@.s, @.p)]", "$.c[?search(@.s, 'b(') || match(@.s, 'a.')]"]
HISTORY_DOCS = [{"pat": "a.", "c": [{"s": "ab", "p": "a."}, {"s": "ac", "p": "a("}, {"s": "b(", "p": 1}, {"s": "ad", "p": "a("}]},
                {"pat": "a(", "c": [{"s": "ab", "p": "a("}, {"s": "a(", "p": "a."}, {"s": "ac", "p": "a("}]},
                {"pat": 7, "c": [{"s": "ab", "p": None}, {"s": "7", "p": "7"}, {"s": "ac", "p": ["a."]}]}]


def history_differential(_n: int) -> List[Tuple[str, Dict[str, Any], str]]:
    """Patterns taken from the document (valid, invalid, not a string) are outside the specification's regular-expression
    dialect, so these evaluations are compared only with themselves: what a compiled query gives on a document in a fresh
    environment it also gives after the same environment has evaluated the other documents, in any order, caching on or off."""
    import copy
    import itertools

    import jsonpath

    out = []
    for text in HISTORY_QUERIES:
        fresh = []
        for d in HISTORY_DOCS:
            try:
                fresh.append(("ok", [tuple(m.parts) for m in jsonpath.JSONPathEnvironment().finditer(text, copy.deepcopy(d))]))
            except BaseException as e:  # noqa: BLE001
                fresh.append(("err:" + exc_family(e), None))
        for caching in (True, False):
            for order in itertools.permutations(range(len(HISTORY_DOCS))):
                env = jsonpath.JSONPathEnvironment(filter_caching=caching)
                try:
                    path = env.compile(text)
                except BaseException:  # noqa: BLE001
                    break
                for i in order + order:
                    try:
                        got = ("ok", [tuple(m.parts) for m in path.finditer(copy.deepcopy(HISTORY_DOCS[i]))])
                    except BaseException as e:  # noqa: BLE001
                        got = ("err:" + exc_family(e), None)
                    if got != fresh[i]:
                        out.append((f"history:result-depends-on-earlier-evaluations|{text}", {"query": text, "order": list(order), "document": i, "filter_caching": caching,
                                                                                       "fresh_environment": str(fresh[i])[:200], "used_environment": str(got)[:200]}, "depends on history"))
                        break
                else:
                    continue
                break
            else:
                continue
            break
    return out


def untyped_differential(_n: int) -> List[Tuple[str, Dict[str, Any], str]]:
    """Queries only an environment without type checks accepts (comparisons of non-singular queries): the specification
    gives them no meaning, so they are compared only with themselves - filter caching on against off."""
    import jsonpath

    out = []
    for text in UNTYPED:
        res = []
        for caching in (True, False):
            env = jsonpath.JSONPathEnvironment(filter_caching=caching, well_typed=False)
            try:
                path = env.compile(text)
                r = []
                for d in _info["docs"]:
                    for c in _info["ctxs"]:
                        r.append([tuple(m.parts) for m in path.finditer(untag(d["doc"]), filter_context=untag(c))])
                res.append(("ok", r))
            except BaseException as e:  # noqa: BLE001
                res.append(("err:" + exc_family(e), None))
        if res[0] != res[1]:
            out.append((f"untyped:caching-on-differs-from-off|{text}", {"query": text, "caching_on": str(res[0])[:300], "caching_off": str(res[1])[:300]}, "caching on differs from off"))
    return out


def _replay(rec: Dict[str, Any]) -> List[Tuple[str, Dict[str, Any], str]]:
    import jsonpath
    from jsonpath import _verif

    text = untext(_info["queries"][rec["q"] - 1])
    for caching in (True, False):
        if caching and _verif.ENABLED:
            _verif.reset()
        env = jsonpath.JSONPathEnvironment(filter_caching=caching)
        _other_environment()      # another, differently configured environment comes into being: nothing of it may show here
        docs = [untag(d["doc"]) for d in _info["docs"]]
        ctxs = [untag(c) for c in _info["ctxs"]]
        pd = [canon(d["doc"]) for d in _info["docs"]]
        pc = [canon(c) for c in _info["ctxs"]]
        disc = ""
        try:
            path = env.compile(text)
        except BaseException as e:  # noqa: BLE001
            return [(f"compile-raised-{exc_family(e)}|q{rec['q']}", {"query": text}, str(e))]
        text0, sels0, hash0 = str(path), path.selectors, hash(path)
        its: Dict[int, Any] = {}
        step = 0
        for step, h in enumerate(rec["hist"], 1):
            try:
                if h["act"] == "open":
                    its[h["it"]] = iter(path.finditer(docs[h["d"] - 1], filter_context=ctxs[h["c"] - 1]))
                elif h["act"] in ("next", "stop"):
                    try:
                        m = next(its[h["it"]])
                        if h["act"] == "stop":
                            disc = "yielded-a-match-after-its-result-was-exhausted"
                        elif tuple(m.parts) != loc_to_parts(h["exp"][0]):
                            disc = "yielded-a-different-match"
                        elif m.obj is not walk(docs[h["d"] - 1], h["exp"][0]):
                            disc = "yielded-a-value-that-is-not-the-node"
                    except StopIteration:
                        if h["act"] == "next":
                            disc = "stopped-before-its-result-was-complete"
                elif h["act"] == "close":
                    it = its.pop(h["it"], None)
                    if hasattr(it, "close"):
                        it.close()
                elif h["act"] == "findall":
                    ms = list(path.finditer(docs[h["d"] - 1], filter_context=ctxs[h["c"] - 1]))
                    vals = path.findall(docs[h["d"] - 1], filter_context=ctxs[h["c"] - 1])
                    if [tuple(m.parts) for m in ms] != [loc_to_parts(l) for l in h["exp"]]:
                        disc = "one-shot-evaluation-differs"
                    elif len(vals) != len(ms) or any(v is not m.obj for v, m in zip(vals, ms)):
                        disc = "findall-differs-from-finditer"
                    else:
                        # the same evaluation as a task, and with the document given as JSON text; what the caller
                        # does to the values returned from a text document must not reach later evaluations
                        from ..pathcommon import _drive

                        avals = _drive(path.findall_async(docs[h["d"] - 1], filter_context=ctxs[h["c"] - 1]))
                        if len(avals) != len(ms) or any(v is not m.obj for v, m in zip(avals, ms)):
                            disc = "async-one-shot-evaluation-differs"
                        else:
                            tvals = path.findall(json.dumps(docs[h["d"] - 1]), filter_context=ctxs[h["c"] - 1])
                            if [canon(tag(v)) for v in tvals] != [canon(tag(m.obj)) for m in ms]:
                                disc = "evaluation-of-the-json-text-differs"
                            for v in tvals:
                                if isinstance(v, list):
                                    v.append("touched-by-caller")
                                elif isinstance(v, dict):
                                    v["touched-by-caller"] = True
                elif h["act"] == "recompile":
                    _other_environment()
                    for k in range(70):       # texts the environment refuses leave nothing behind in it
                        try:
                            env.compile("$[?((@.a == " + "(" * (k % 3) + "]")
                        except Exception:  # noqa: BLE001
                            pass
                    p2 = env.compile("".join(list(text)))      # an equal text, another string object
                    if not (p2 == path) or hash(p2) != hash(path) or str(p2) != str(path):
                        disc = "recompiled-query-not-equal"
                    path = p2
                    sels0 = path.selectors
            except BaseException as e:  # noqa: BLE001
                disc = f"{h['act']}-raised-{exc_family(e)}"
            if not disc:
                if [canon(tag(d)) for d in docs] != pd:
                    disc = "document-modified"
                elif [canon(tag(c)) for c in ctxs] != pc:
                    disc = "filter-context-modified"
                elif str(path) != text0 or path.selectors != sels0 or hash(path) != hash0:
                    disc = "compiled-query-modified"
            if disc:
                break
        if caching and _verif.ENABLED:
            rec["_events"] = normalise(_verif.sink)
        if not disc and rec["q"] in _noctx and (rec.get("_repeat") or sum(h["d"] + h["c"] for h in rec["hist"]) % 3 == 0):
            # after all that, an evaluation that is given no filter context (and one given an empty one) sees none
            try:
                for d0 in range(len(docs)):
                    want = [loc_to_parts(l) for l in _noctx[rec["q"]][d0]]
                    if [tuple(m.parts) for m in path.finditer(docs[d0])] != want or [tuple(m.parts) for m in path.finditer(docs[d0], filter_context={})] != want:
                        disc = "evaluation-without-a-filter-context-sees-an-earlier-one"
                        break
            except BaseException as e:  # noqa: BLE001
                disc = f"evaluation-without-a-filter-context-raised-{exc_family(e)}"
        if not disc and rec.get("_repeat"):
            first = [tuple(m.parts) for m in path.finditer(docs[0], filter_context=ctxs[0])]
            for _ in range(100):
                if [tuple(m.parts) for m in path.finditer(docs[0], filter_context=ctxs[0])] != first:
                    disc = "result-changed-on-repeated-use"
                    break
            # ... and the use after several hundred iterators that were opened, advanced once and abandoned
            if not disc:
                try:
                    for k in range(480):
                        it = iter(path.finditer(docs[k % len(docs)], filter_context=ctxs[(k // len(docs)) % len(ctxs)]))
                        next(it, None)
                        if k % 2:
                            it.close()
                        del it
                    if [tuple(m.parts) for m in path.finditer(docs[0], filter_context=ctxs[0])] != first:
                        disc = "result-changed-after-abandoned-iterators"
                except BaseException as e:  # noqa: BLE001
                    disc = f"evaluation-after-abandoned-iterators-raised-{exc_family(e)}"
        if disc:
            acts = ">".join(h["act"] for h in rec["hist"][:step])
            return [(f"{disc}|caching={caching}|q{rec['q']}", {"query": text, "filter_caching": caching, "failed_at_step": step,
                     "history": [(h["act"], h["it"], h["d"], h["c"]) for h in rec["hist"]], "acts": acts, "tagged": rec}, disc)]
    return []


TCFG = """CONSTANTS NThreads = {nt}
 L1 = {l1}
 L2 = {l2}
 L3 = {l3}
 MaxPreempt = {mp}
 Stride = {st}
 SharedScratch = {sh}
 Walk = {walk}
{next}
INVARIANT Independence
INVARIANT PreemptBound
INVARIANT Export
{props}
"""
_tables: Dict[int, Any] = {}
_noctx: Dict[int, Any] = {}
# (document, context) of each thread: different roots and different contexts, the third equal to the first in value
THREAD_PAIRS = {2: [(1, 1), (2, 2)], 3: [(1, 1), (2, 2), (3, 2)],
                # (key 22) two threads reading one and the same document and context object
                22: [(1, 1), (1, 1)]}


def _thread_setup(q: int, caching: bool, pairs: List[Tuple[int, int]]) -> Tuple[Any, List[Any], List[Any], List[Any]]:
    import jsonpath

    env = jsonpath.JSONPathEnvironment(filter_caching=caching)
    path = env.compile(untext(_info["queries"][q - 1]))
    docs = [untag(_info["docs"][d - 1]["doc"]) for d, _ in pairs]
    ctxs = [untag(_info["ctxs"][c - 1]) for _, c in pairs]
    if len(pairs) == 2 and pairs[0] == pairs[1]:
        docs[1], ctxs[1] = docs[0], ctxs[0]          # shared, read-only

    def fn(i: int) -> Any:
        if i % 2:       # (the second thread comes in through the query iterator)
            return lambda: [tuple(m.parts) for m in path.query(docs[i], filter_context=ctxs[i])]
        return lambda: [tuple(m.parts) for m in path.finditer(docs[i], filter_context=ctxs[i])]

    return path, docs, ctxs, [fn(i) for i in range(len(pairs))]


def thread_lengths(args: Tuple[int, bool, int]) -> Any:
    """Lines of the library each thread's evaluation executes on its own (the constants L1..L3 of MC_Threads)."""
    from ..linesched import solo_lines

    q, caching, nt = args
    try:
        _p, _d, _c, fns = _thread_setup(q, caching, THREAD_PAIRS[nt])
        return [solo_lines(f)[0] for f in fns]
    except BaseException as e:  # noqa: BLE001
        return f"raised-{exc_family(e)}"


def replay_threads(args: Tuple[int, bool, int, List[List[List[int]]]]) -> List[Tuple[str, Dict[str, Any], str]]:
    """Real threads over one shared compiled query, run along each schedule of a chunk under the line-grain scheduler."""
    from jsonpath import _verif

    from ..linesched import Run

    q, caching, nt, scheds = args
    pairs = THREAD_PAIRS[nt]
    expected = [[loc_to_parts(l) for l in _tables[q][d - 1][c - 1]] for d, c in pairs]
    out: List[Tuple[str, Dict[str, Any], str]] = []
    for sched in scheds:
        if _verif.ENABLED:
            _verif.reset()
        path, docs, ctxs, fns = _thread_setup(q, caching, pairs)
        text0, sels0, hash0 = str(path), path.selectors, hash(path)
        pd = [canon(tag(d)) for d in docs]
        pc = [canon(tag(c)) for c in ctxs]
        r = Run(fns)
        r.run([(t - 1, n) for t, n in sched])
        disc = ""
        for i in range(len(pairs)):
            if r.errors[i] is not None:
                disc = f"thread-raised-{exc_family(r.errors[i])}"
            elif not r.done[i]:
                disc = "thread-did-not-finish"
            elif r.results[i] != expected[i]:
                disc = "thread-result-differs-from-a-solo-evaluation"
            if disc:
                break
        if not disc:
            if [canon(tag(d)) for d in docs] != pd:
                disc = "document-modified"
            elif [canon(tag(c)) for c in ctxs] != pc:
                disc = "filter-context-modified"
            elif str(path) != text0 or path.selectors != sels0 or hash(path) != hash0:
                disc = "compiled-query-modified"
        if disc:
            out.append((f"threads:{disc}|caching={caching}|q{q}", {"query": untext(_info["queries"][q - 1]), "filter_caching": caching, "threads": pairs,
                        "schedule_bursts_thread_lines": sched, "expected_parts": [str(e) for e in expected], "observed_parts": [str(x) for x in r.results],
                        "q": q, "nt": nt}, disc))
            break      # one schedule per chunk is enough to report
    return out


def threads_part(chk: Check, tier: str, seed: int) -> None:
    """MC_Threads: schedules at the grain of one library line, enumerated by TLC, run with real threads."""
    # self-test of the specification: a stash on a shared object must be refuted with one pre-emption
    r = tlc("MC_Threads", TCFG.format(nt=2, l1=6, l2=6, l3=0, mp=1, st=1, sh="TRUE", walk="FALSE", next="INIT Init\nNEXT Next", props=""), expect_violation=True, timeout=600, workers=2)
    if not r.violation or "Independence" not in r.violation:
        raise MachineryError("MC_Threads with SharedScratch=TRUE did not violate Independence (the model has lost its teeth)")
    chk.extra["spec_selftest_threads"] = "SharedScratch=TRUE refuted by TLC: " + r.violation
    r = tlc("MC_Threads", TCFG.format(nt=3, l1=7, l2=6, l3=5, mp=3, st=1, sh="FALSE", walk="FALSE", next="SPECIFICATION Spec", props="PROPERTY Terminates"), timeout=900, workers=4,
            deadlock=False)
    chk.add_tlc(r)
    queries = list(range(1, NQUERIES + 1))
    plans = [(q, caching, 2) for q in queries for caching in (True, False)]
    plans += [(q, True, 3) for q in (queries[seed % 6::6] if tier == "quick" else queries)]
    plans += [(q, c, 22) for q in ((13, 5, 1) if tier == "quick" else queries) for c in ((True,) if tier == "quick" else (True, False))]
    import time as _t
    _t0 = _t.time()
    lens = list(core.pmap(thread_lengths, plans, item_timeout=120))
    chk.extra["seconds_thread_lengths"] = round(_t.time() - _t0, 1)
    _t0 = _t.time()
    chk.extra["thread_lines_solo"] = {f"q{q}-{'on' if c else 'off'}-{nt}": ls for (q, c, nt), ls in zip(plans, lens) if nt != 3 and c}
    jobs = []
    for (q, caching, nt), ls in zip(plans, lens):
        if not isinstance(ls, list) or not all(isinstance(x, int) for x in ls):
            chk.violation(f"threads:solo-run-{ls if isinstance(ls, str) else 'abnormal'}|q{q}", {"query": untext(_info["queries"][q - 1]), "filter_caching": caching}, "solo traced run failed")
            continue
        l3 = ls[2] if nt == 3 else 0
        if len(THREAD_PAIRS[nt]) == 2:
            # every line of either thread as the single pre-emption point; two pre-emptions on a grid
            # (every line of either thread is tried as the single pre-emption point; quick: every 5th line with caching off)
            if tier != "quick" or caching:
                st1 = 1
            else:
                st1 = 5
            # a bound on the pre-emption points of one workload (the descendant query runs 20 000 lines per thread)
            cap = (3000 if st1 == 1 else 600) if tier == "quick" else 12000
            st1 = max(st1, -(-(ls[0] + ls[1]) // cap))
            jobs.append(((q, caching, nt), ("MC_Threads", TCFG.format(nt=2, l1=ls[0], l2=ls[1], l3=0, mp=1, st=st1, sh="FALSE", walk="FALSE", next="INIT Init\nNEXT Next", props=""), dict(timeout=1200, workers=2))))
            grid = max(2, max(ls) // (6 if tier == "quick" else 60))
            jobs.append(((q, caching, nt), ("MC_Threads", TCFG.format(nt=2, l1=ls[0], l2=ls[1], l3=0, mp=2, st=grid, sh="FALSE", walk="FALSE", next="INIT Init\nNEXT Next", props=""), dict(timeout=1200, workers=2))))
        else:
            grid = max(2, max(ls) // (4 if tier == "quick" else 16))
            jobs.append(((q, caching, nt), ("MC_Threads", TCFG.format(nt=3, l1=ls[0], l2=ls[1], l3=l3, mp=2, st=grid, sh="FALSE", walk="FALSE", next="INIT Init\nNEXT Next", props=""), dict(timeout=1200, workers=2))))
            jobs.append(((q, caching, nt), ("MC_Threads", TCFG.format(nt=3, l1=ls[0], l2=ls[1], l3=l3, mp=0, st=max(2, max(ls) // 20), sh="FALSE", walk="TRUE", next="INIT Init\nNEXT NextSim", props=""),
                                            dict(simulate=(20 if tier == "quick" else 1500, 400), seed=seed + q, workers=1, timeout=1200))))
    items = []
    nsched = 0
    for (key, _job), r in zip(jobs, core.tlc_parallel([j for _k, j in jobs], threads=8)):
        chk.add_tlc(r)
        scheds = sorted({json.dumps(x["sched"]) for x in r.records})
        nsched += len(scheds)
        for k in range(0, len(scheds), 4):      # (small items: the pool only spreads over all cores from a few thousand items on)
            items.append((key[0], key[1], key[2], [json.loads(x) for x in scheds[k:k + 4]]))
    chk.extra["seconds_thread_tlc"] = round(_t.time() - _t0, 1)
    _t0 = _t.time()
    for it, res in zip(items, core.pmap(replay_threads, items, chunk=20, item_timeout=300)):
        chk.traces += len(it[3])
        for sig, case, what in res:
            chk.violation(sig, case, what)
    chk.extra["thread_schedules_replayed"] = nsched
    chk.extra["seconds_thread_replay"] = round(_t.time() - _t0, 1)
    chk.extra["thread_replay_items"] = len(items)
    chk.extra["thread_workloads"] = len(plans)
    if items:
        chk.sample({"threads": THREAD_PAIRS[items[0][2]], "query": untext(_info["queries"][items[0][0] - 1]), "schedule_bursts_thread_lines": items[0][3][min(7, len(items[0][3]) - 1)]})



def run(chk: Check, tier: str, seed: int) -> None:
    recs: List[Dict[str, Any]] = []
    # self-test of the specification: the wrong design must be refuted
    r = tlc("MC_Sessions", CFG.format(ni=2, ml=4, shared="TRUE", q=1, next="Next", props=""), expect_violation=True, timeout=1200)
    if not r.violation or "SchedIndependence" not in r.violation:
        raise MachineryError("MC_Sessions with SharedCells=TRUE did not violate SchedIndependence (the model has lost its teeth)")
    chk.extra["spec_selftest"] = "SharedCells=TRUE refuted by TLC: " + r.violation
    jobs = []
    for q in ((1, 3) if tier == "quick" else range(1, NQUERIES + 1)):
        jobs.append(("MC_Sessions", CFG.format(ni=2, ml=4, shared="FALSE", q=q, next="Next", props="PROPERTY OneWriter"), dict(timeout=3000, workers=4)))
    num = 150 if tier == "quick" else 8000
    for q in range(1, NQUERIES + 1):
        jobs.append(("MC_Sessions", CFG.format(ni=3, ml=12, shared="FALSE", q=q, next="NextSim", props=""),
                     dict(simulate=(num, 13), seed=seed + q, workers=1, timeout=3000)))
    for r in core.tlc_parallel(jobs, threads=10):
        chk.add_tlc(r)
        for x in r.records:
            if "docs" in x:
                _info.update(x)
            elif "table" in x:
                _tables[x["table"]] = x["exp"]
                _noctx[x["table"]] = x["noctx"]
            else:
                recs.append(x)
    if tier == "quick":
        bfs = [x for x in recs if len(x["hist"]) == 4]
        recs = bfs[::4] + [x for x in recs if len(x["hist"]) != 4]
    seen_q = set()
    for i, x in enumerate(recs):
        if i % 40 == 0 or x["q"] not in seen_q:      # (and at least one history of every query)
            x["_repeat"] = True
            seen_q.add(x["q"])
    traces: List[Dict[str, Any]] = []
    cap = 12000 if tier == "quick" else 60000
    # the histories whose hook events go to TLC: every random walk (all queries) and an even spread of the exhaustive ones
    walks = sum(1 for x in recs if len(x["hist"]) != 4)
    stride = max(1, (len(recs) - walks) // max(1, cap - walks))
    nb = 0
    for x in recs:
        if len(x["hist"]) != 4:
            x["_trace"] = True
        else:
            x["_trace"] = nb % stride == 0     # the others do not ship their events back (memory)
            nb += 1
    for ri, (rec, res) in enumerate(zip(recs, core.pmap(replay, recs))):
        chk.traces += 2
        live = {h["it"] for h in rec["hist"] if h["act"] == "open"}
        if len(live) >= 2:
            chk.nontrivial.add(hash(json.dumps(rec, sort_keys=True)))
        if isinstance(res, list):  # abnormal (hang / crash)
            for sig, case, what in res:
                chk.violation(sig, case, what)
            continue
        for sig, case, what in res["viol"]:
            chk.violation(sig, case, what)
        if res["events"] and rec["_trace"]:
            traces.append({"id": len(traces) + 1, "events": res["events"], "_rec": rec})
    for res in core.pmap(untyped_differential, [0]):
        for sig, case, what in res:
            chk.violation(sig, case, what)
    chk.extra["untyped_queries_compared_caching_on_off"] = len(UNTYPED)
    for res in core.pmap(history_differential, [0]):
        for sig, case, what in res:
            chk.violation(sig, case, what)
    chk.extra["document_supplied_pattern_queries_compared_across_histories"] = len(HISTORY_QUERIES)
    import time as _t
    _t0 = _t.time()
    threads_part(chk, tier, seed)
    chk.extra["seconds_thread_part"] = round(_t.time() - _t0, 1)
    # ---- code -> specification: the hook events of every history validated by TLC (Trace_Cache.tla)
    if traces:
        sc = core.scratch()
        jobs = []
        nsh = 8
        for k in range(nsh):
            pth = sc / f"cache-trace-{os.getpid()}-{k}.ndjson"
            with open(pth, "w") as f:
                for t in traces[k::nsh]:
                    f.write(json.dumps({"id": t["id"], "events": t["events"]}) + "\n")
            jobs.append(("Trace_Cache", "SPECIFICATION Spec\nPROPERTY Verdicts\n", dict(env={"TRACE_FILE": str(pth)}, workers=2, timeout=3000, heap="4g")))
        nev = sum(len(t["events"]) for t in traces)
        for r in core.tlc_parallel(jobs, threads=8):
            chk.add_tlc(r)
            for x in r.records:
                t = traces[x["reject"] - 1]
                chk.violation(f"cache-discipline:{x['why']}|q{t['_rec']['q']}",
                              {"query": untext(_info["queries"][t["_rec"]["q"] - 1]), "history": [(h["act"], h["it"], h["d"], h["c"]) for h in t["_rec"]["hist"]],
                               "event_index": x["at"], "events": t["events"][: x["at"] + 1][-6:], "tagged": t["_rec"]}, x["why"])
        chk.extra["hook_traces_validated_by_tlc"] = len(traces)
        chk.extra["hook_events_validated"] = nev
    else:
        chk.extra["hook_traces_validated_by_tlc"] = 0
    for rec in recs[1000:1002] + recs[-2:]:
        chk.sample({"query": untext(_info["queries"][rec["q"] - 1]), "history": [(h["act"], h["it"], h["d"], h["c"]) for h in rec["hist"]]})
    chk.rule = ("behaviours of MC_Sessions.tla: open/next/close of up to 2 (random walks: 3) lazy iterators over 3 documents (two equal, one different root) x 2 "
                "filter contexts, one-shot evaluations and re-compilation in every interleaving of length 4 (quick: a quarter of them, two queries) plus seeded "
                "walks of length 12 for all 8 queries (root-/context-rooted sub-queries, functions of them, nested filters, current key); each replayed with filter "
                "caching on and off; non-trivial = at least two iterators opened; every 40th history also repeats the evaluation 100 times")
    chk.assumptions += ["iterator interleavings are at the grain of next(); thread schedules are at the grain of one source line of the library under a deterministic scheduler (all single pre-emption points, two pre-emptions on a grid, seeded random bursts) - pre-emption inside one line (between bytecodes) is not explored"]


def replay_file(case: Dict[str, Any]) -> int:
    r = tlc("MC_Sessions", CFG.format(ni=1, ml=0, shared="FALSE", q=1, next="Next", props=""))
    _info.update([x for x in r.records if "docs" in x][0])
    res = replay(case["case"]["tagged"])
    for sig, c, what in res["viol"]:
        print("DIVERGENCE", sig, c["query"], c["history"], "step", c["failed_at_step"])
    bad = [e for e in res["events"] if (e["e"] == "created" and not e["fresh"]) or (e["e"] == "cell" and e["owner"] != e["reader"])]
    for e in bad:
        print("DIVERGENCE cache-discipline", e)
    return 1 if res["viol"] or bad else 0
