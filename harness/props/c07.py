"""C07 - compile-time gate: valid RFC queries accepted, ill-typed or out-of-range refused
(spec: Typing.tla, Render.tla, MC_Typing.tla; Lexer.tla, Parser.tla, ParseBack.tla, MC_ParseRender.tla).

TLC judges every program of the universes with the RFC 9535 2.4.3 typing rules and the
syntactic side conditions (each well- or ill-typed construct placed at every position of a
logical expression; selectors with injected defects; integer bounds at / inside / outside
the limits under default and narrowed limits), checks type soundness of the accepted ones,
and exports verdict + spellings; the implementation must accept exactly the accepted ones,
refuse the others with a JSONPath error, at compile time.
"""
from __future__ import annotations

import json
from typing import Any, Dict, List, Tuple

from .. import core
from ..core import Check, exc_family, tlc, untext
from ..pathcommon import expr_features

CFG = """CONSTANTS Universe = "{universe}"
 LoAbs = {lo}
 Hi = {hi}
SPECIFICATION Spec
INVARIANT Soundness
INVARIANT VerdictsAgree
INVARIANT ParseRenderIsIdentity
INVARIANT Export
PROPERTY Terminates
"""


WARMUP = ["$[?length(@.a) == 1]", "$[?count(@.*) == 1]", "$[?match(@.a, 'a')]", "$[?search(@.a, 'a')]", "$[?value(@.a) == 1]", "$[?length('abc') == 3]",
          "$[?length(value(@..a)) == 1]", "$[?count($..a) == 1]", "$[?match(@.a, $.b)]", "$[?value(@.*) == 1 && count(@.*) > length(@.a)]", "$[?search(value(@.a), 'a')]",
          "$[1]", "$[-1]", "$[1:2:1]", "$[?@.a == 1]", "$[?@.a]"]
_warm: Dict[Any, Any] = {}


def make_env(narrow: Any, warm: bool = False) -> Any:
    """An environment with the record's integer limits ([lo, hi], or a false value for the defaults); with warm=True
    one that has already compiled well-typed calls of every function with every kind of argument."""
    import jsonpath

    key = json.dumps(narrow)
    if warm and key in _warm:
        return _warm[key]
    if not narrow:
        env = jsonpath.JSONPathEnvironment(well_typed=True)
    else:
        class Narrow(jsonpath.JSONPathEnvironment):
            min_int_index = narrow[0]
            max_int_index = narrow[1]

        env = Narrow(well_typed=True)
    if warm:
        for q in WARMUP:
            try:
                env.compile(q)
            except Exception:  # noqa: BLE001
                pass
        _warm[key] = env
    return env


def defect_kind(q: Any) -> str:
    s = json.dumps(q)
    f = sorted(expr_features(q))
    if '"raw"' in s:
        return "injected-selector-text"
    return "+".join(x for x in f if x not in ("rootS",))


def replay(rec: Dict[str, Any]) -> List[Tuple[str, Dict[str, Any], str]]:
    from jsonpath.exceptions import JSONPathError

    env = make_env(rec["narrow"])
    for si, t in enumerate(rec["texts"]):
        text = untext(t)
        disc = ""
        try:
            env.compile(text)
            accepted = True
        except JSONPathError:
            accepted = False
        except BaseException as e:  # noqa: BLE001
            accepted = False
            if not rec["accept"]:
                disc = f"refused-with-{exc_family(e)}"
        if not disc and accepted != rec["accept"]:
            disc = "accepted-but-must-be-refused" if accepted else "refused-but-valid"
        if not disc and not rec["accept"]:
            # refused at compile time means: no entry point gets as far as evaluating
            try:
                env.finditer(text, [{"a": [1], "b": 2}])
                disc = "finditer-did-not-refuse"
            except JSONPathError:
                pass
            except BaseException as e:  # noqa: BLE001
                disc = f"finditer-raised-{exc_family(e)}"
        if not disc and si == 0:
            # the gate depends on the environment's configuration at the time of the call, not on what the same
            # environment object compiled earlier under another configuration
            import jsonpath

            env2 = jsonpath.JSONPathEnvironment(well_typed=False)
            try:
                env2.compile(text)
            except BaseException:  # noqa: BLE001
                pass
            env2.well_typed = True
            if rec["narrow"]:
                env2.min_int_index, env2.max_int_index = rec["narrow"]
            try:
                env2.compile(text)
                acc2 = True
            except JSONPathError:
                acc2 = False
            except BaseException as e:  # noqa: BLE001
                acc2 = False
                disc = f"reconfigured-environment-refused-with-{exc_family(e)}"
            if not disc and acc2 != rec["accept"]:
                disc = "reconfigured-environment-" + ("accepted-but-must-be-refused" if acc2 else "refused-but-valid")
        if not disc:
            # ... nor on what the environment compiled earlier under the same configuration
            envw = make_env(rec["narrow"], warm=True)
            try:
                envw.compile(text)
                accw = True
            except JSONPathError:
                accw = False
            except BaseException as e:  # noqa: BLE001
                accw = False
                disc = f"used-environment-refused-with-{exc_family(e)}"
            if not disc and accw != rec["accept"]:
                disc = "used-environment-" + ("accepted-but-must-be-refused" if accw else "refused-but-valid")
        if disc:
            lims = "default" if not rec["narrow"] else ("narrow" if rec["narrow"][0] == -rec["narrow"][1] else "asymmetric")
            return [(f"{disc}|{lims}|{defect_kind(rec['q'])}",
                     {"query": text, "style": si, "spec_accepts": rec["accept"], "narrow_limits": rec["narrow"], "tagged": rec}, disc)]
    return []


def run(chk: Check, tier: str, seed: int) -> None:
    recs: List[Dict[str, Any]] = []
    plan = [("positions", None), ("selectors", None), ("selectors", [-5, 5]), ("selectors", [-3, 10]), ("selectors", [-10, 3]), ("selectors", [0, 5]), ("selectors", [-5, 0])] + ([("pairs", None)] if tier == "thorough" else [])
    for u, narrow in plan:
        r = tlc("MC_ParseRender", CFG.format(universe=u, lo=-narrow[0] if narrow else 100, hi=narrow[1] if narrow else 100), timeout=3000)
        chk.add_tlc(r)
        for x in r.records:
            x["narrow"] = narrow
            x["universe"] = u
            recs.append(x)
    for rec, res in zip(recs, core.pmap(replay, recs)):
        chk.traces += len(rec["texts"])
        chk.nontrivial.add((untext(rec["texts"][0]), json.dumps(rec["narrow"])))
        for sig, case, what in res:
            chk.violation(sig, case, what)
    # ---- the parser model on every token sequence up to a bound: total, and no ill-formed tree accepted (MC_Parser.tla)
    n = 3 if tier == "quick" else 5
    r = tlc("MC_Parser", f"CONSTANTS MaxLen = {n}\nINIT Init\nNEXT Next\nINVARIANT Total\nINVARIANT NoIllFormedTreeAccepted\n" + ("INVARIANT ExportAccepted\n" if n <= 4 else ""),
            workers=16, timeout=3000)
    chk.add_tlc(r)
    chk.extra["parser_model_on_all_token_sequences"] = {"free_tokens_up_to": n, "sequences": r.distinct, "accepted": sum(1 for ln in r.log.splitlines() if '"accepted"' in ln) if n <= 4 else "not counted"}
    # ---- the same verdicts through the implementation-shaped parser model: code = Parser.tla = Typing.tla, and the
    # ---- parser model against the code on lexeme soups (accept / refuse, error class and tree for every token sequence)
    from .. import parsecheck

    items = []
    seen = set()
    for rec in recs:
        for t in rec["texts"]:
            key = (untext(t), json.dumps(rec["narrow"]))
            if key not in seen:
                seen.add(key)
                items.append({"text": key[0], "lim": rec["narrow"], "accept": rec["accept"]})
    for t in parsecheck.soup_texts(chk, "mutants", 0) + parsecheck.soup_texts(chk, "soup", 2 if tier == "quick" else 3):
        items.append({"text": t, "lim": None})
    rejects, counters = parsecheck.validate(chk, items)
    parsecheck.report(chk, rejects, "parser")
    chk.extra["parser_model"] = counters
    chk.traces += counters["recorded"]
    # texts the specification's strings cannot usefully carry: integers of more digits than the host converts (refused, with a JSONPath error)
    from jsonpath.exceptions import JSONPathError

    huge = "9" * 5000
    for text in (f"$[{huge}]", f"$[-{huge}]", f"$[:{huge}]", f"$[{huge}::]", f"$[?@[{huge}] == 1]", f"$[?@.a == {huge}]", f"$..[1, {huge}]"):
        for lim in (None, [-5, 5]):
            try:
                make_env(lim).compile(text)
                chk.violation("accepted-but-must-be-refused|huge-integer", {"query": text[:40] + "...", "narrow_limits": lim}, "huge integer accepted")
            except JSONPathError:
                pass
            except BaseException as e:  # noqa: BLE001
                chk.violation(f"refused-with-{exc_family(e)}|huge-integer", {"query": text[:40] + "...", "narrow_limits": lim}, f"{type(e).__name__}")
            chk.traces += 1
    acc = sum(1 for r in recs if r["accept"])
    chk.extra["programs_accepted_by_spec"] = acc
    chk.extra["programs_refused_by_spec"] = len(recs) - acc
    for rec in recs[3:6] + recs[-3:]:
        chk.sample({"query": untext(rec["texts"][0]), "spec_accepts": rec["accept"], "narrow_limits": rec["narrow"]})
    chk.exhaustive = True
    chk.extra["spec_front_end"] = ("MC_ParseRender: for every program and spelling TLC lexes the rendered text (Lexer.tla), parses the tokens (Parser.tla) and "
                                   "checks that the parser's verdict is the typing verdict and that the tree of an accepted program is the program (ParseBack.tla)")
    chk.rule = ("terminal states of MC_Typing.tla: 13 well-typed and 27 ill-typed constructs (non-singular or logical-typed comparison operands, value-typed "
                "tests, arity, argument kinds, unknown functions, uncompared literals) in 11 positions (top level, under !, in parentheses, either side of && / ||, "
                "nested filters, descendant segments) (thorough: all pairs), selectors with leading zeros / empty or comma-terminated lists / bounds at, inside and "
                "outside +-(2^53-1) and, under narrowed limits -5..5, -3..10, -10..3, 0..5 and -5..0, at / inside / outside either limit and their mirror images, in 6 positions; every text "
                "is also compiled in a reconfigured environment and in one that has compiled well-typed calls of every function before; the tokens and the tree / "
                "error class of every text, and of every lexeme soup and single-lexeme mutant of MC_Soup, validated by TLC against Parser.tla (with the typing verdict); 3 spellings each; every program contains a filter or an injected defect")
    chk.assumptions += ["a leading zero in a slice bound is not in the property's list of refusals and is not classified"]


def replay_file(case: Dict[str, Any]) -> int:
    res = replay(case["case"]["tagged"])
    for sig, c, what in res:
        print("DIVERGENCE", sig, c["query"], "spec_accepts=", c["spec_accepts"])
    return 1 if res else 0
