"""C14 - pointer text, tokens and navigation are mutually consistent (spec: Pointer.tla, MC_PtrNav.tla).

TLC enumerates (a) every token sequence over the delicate alphabet up to a bound and
(b) every chain of join / slash / parent actions from a set of start pointers, checking
the navigation laws on the specification; each behaviour is replayed into JSONPointer
objects and after every action the printed text, equality against pointers built the
other ways, parent / is_relative_to and resolution on a probe document are compared.
"""
from __future__ import annotations

import json
from typing import Any, Dict, List, Tuple

from .. import core
from ..core import Check, show, tlc, untag, untext
from .c04 import walk

CFG = """CONSTANTS MaxLen = {maxlen}
 TokChars = {tokchars}
 MaxToks = {maxtoks}
 PartChars = {partchars}
INIT Init
NEXT {next}
INVARIANT RoundTrip
INVARIANT JoinLaws
INVARIANT ParentLaws
INVARIANT AbsoluteReplaces
INVARIANT Export
"""

_probe: Any = None


def is_ext(tok: str) -> bool:
    """Tokens whose resolution is a documented extension (kept out of the resolution law)."""
    if tok[:1] in ("#", "~"):  # "~" alone is the keys-selector applied to the member named ""
        return True
    if tok.startswith("-") and tok[1:].isdigit():
        return True
    return tok == "#"


def lookalikes(tok: str) -> List[str]:
    out = []
    try:
        c = str(int(tok))
        if c != tok:
            out.append(c)
    except ValueError:
        pass
    if tok.isdigit():
        out += ["+" + tok, "0" + tok, " " + tok]
    return out


def check_ptr(p: Any, obs: Dict[str, Any], probe_t: Any, where: str) -> List[str]:
    from jsonpath import JSONPointer
    from jsonpath.exceptions import JSONPointerResolutionError

    bad = []
    text = untext(obs["text"])
    toks = [untext(t) for t in obs["toks"]]
    if str(p) != text:
        bad.append(f"{where}:text")
    try:
        q1 = JSONPointer(text)
        q2 = JSONPointer.from_parts(toks)
        if not (p == q1 and q1 == p):
            bad.append(f"{where}:ne-parsed-text")
        if not (p == q2 and q2 == p):
            bad.append(f"{where}:ne-from-parts")
        if hash(p) != hash(q1) or hash(p) != hash(q2):
            bad.append(f"{where}:hash")
        if str(q1) != text:
            bad.append(f"{where}:parse-print")
        if str(q2) != text:
            bad.append(f"{where}:from-parts-print")
        for i, t in enumerate(toks):
            for v in lookalikes(t):
                other = JSONPointer.from_parts(toks[:i] + [v] + toks[i + 1:])
                if other == p or (str(other) == str(p)):
                    bad.append(f"{where}:equal-to-different-tokens")
                    break
        # the (strict) ancestor relation is "is a proper prefix of the tokens", however either pointer was built
        for j in range(len(toks)):
            anc = JSONPointer.from_parts(toks[:j])
            anc2 = JSONPointer(str(anc))
            if not (p.is_relative_to(anc) and p.is_relative_to(anc2) and q1.is_relative_to(anc) and q2.is_relative_to(anc2)):
                bad.append(f"{where}:not-relative-to-its-own-prefix")
                break
            if anc.is_relative_to(p) or anc2.is_relative_to(q2):
                bad.append(f"{where}:prefix-relative-to-longer-pointer")
                break
        # equal pointers resolve alike (extension tokens included: whatever they mean, they mean it for every way of building the pointer)
        doc0 = untag(probe_t)

        def outcome(x: Any) -> Any:
            try:
                return ("ok", id(x.resolve(doc0)))
            except JSONPointerResolutionError as e:
                return ("resolution-error", type(e).__name__)
            except BaseException as e:  # noqa: BLE001
                return ("raised", type(e).__name__)

        if len({outcome(x) for x in (p, q1, q2)}) != 1:
            bad.append(f"{where}:equal-pointers-resolve-differently")
        # the documented index token "#k": it gives k exactly where the plain token k gives an element
        if toks and toks[-1][:1] == "#" and toks[-1][1:].isdigit() and toks[-1][1:].isascii() and (toks[-1] == "#0" or toks[-1][1] != "0"):
            try:
                parent_v = JSONPointer.from_parts(toks[:-1]).resolve(doc0)
            except Exception:  # noqa: BLE001
                parent_v = None
            if isinstance(parent_v, list):
                plain = JSONPointer.from_parts(toks[:-1] + [toks[-1][1:]]).exists(doc0)
                if p.exists(doc0) != plain:
                    bad.append(f"{where}:index-token-exists-where-the-plain-index-does-not")
    except BaseException as e:  # noqa: BLE001
        bad.append(f"{where}:construct-raised-{type(e).__name__}")
    if not any(is_ext(t) for t in toks):
        doc = untag(probe_t)
        try:
            v = p.resolve(doc)
            if not obs["res"]["ok"]:
                bad.append(f"{where}:resolves-but-spec-fails")
            elif v is not walk(doc, obs["res"]["loc"]):
                bad.append(f"{where}:resolves-to-other-node")
        except JSONPointerResolutionError:
            if obs["res"]["ok"]:
                bad.append(f"{where}:resolution-error")
        except BaseException as e:  # noqa: BLE001
            bad.append(f"{where}:resolve-raised-{type(e).__name__}")
    return bad


def replay(args: Tuple[Dict[str, Any], Any]) -> List[Tuple[str, Dict[str, Any], str]]:
    from jsonpath import JSONPointer

    rec, probe_t = args
    bad: List[str] = []
    text0 = untext(rec["start"]["text"])
    try:
        if "%" in text0:
            # the same text read once with URI decoding asked for: what it means without that option does not depend on it
            try:
                JSONPointer(text0, uri_decode=True)
            except Exception:  # noqa: BLE001
                pass
        p = JSONPointer(text0)
    except BaseException as e:  # noqa: BLE001
        bad.append(f"start:construct-raised-{type(e).__name__}")
        p = None
    if p is not None:
        bad += check_ptr(p, rec["start"], probe_t, "start")
        if text0 == "" and not (p.parent() == p):
            bad.append("start:parent-of-root")
    k = 0
    if p is not None and not bad:
        for k, h in enumerate(rec["hist"], 1):
            prev = p
            arg = untext(h["arg"])
            try:
                if h["act"] == "join":
                    p = prev.join(arg)
                elif h["act"] == "join2":
                    p = prev.join(arg, untext(h["arg2"]))
                elif h["act"] == "slash":
                    p = prev / arg
                else:
                    p = prev.parent()
            except BaseException as e:  # noqa: BLE001
                bad.append(f"{h['act']}:raised-{type(e).__name__}")
                break
            bad += check_ptr(p, h["obs"], probe_t, h["act"])
            if h["single"]:
                try:
                    if not (p.parent() == prev):
                        bad.append(f"{h['act']}:parent-of-join")
                    if not p.is_relative_to(prev) or prev.is_relative_to(p):
                        bad.append(f"{h['act']}:is-relative-to")
                except BaseException as e:  # noqa: BLE001
                    bad.append(f"{h['act']}:law-raised-{type(e).__name__}")
            if str(prev) != (untext(rec["hist"][k - 2]["obs"]["text"]) if k > 1 else text0):
                bad.append(f"{h['act']}:mutated-receiver")
            if bad:
                break
    if not bad:
        return []
    toks = [untext(t) for t in rec["start"]["toks"]] + [untext(h["arg"]) for h in rec["hist"][:k]]
    from .c04 import tok_kind

    feats = sorted({tok_kind(t.replace("~1", "/").replace("~0", "~")) for t in toks} - {"name", "canonical-int"})
    sig = f"{bad[0]}|{'+'.join(feats) or 'plain'}"
    case = {"start": text0, "actions": [(h["act"], untext(h["arg"]), untext(h["arg2"])) for h in rec["hist"]], "failed": bad, "tagged": rec}
    return [(sig, case, bad[0])]


def run(chk: Check, tier: str, seed: int) -> None:
    global _probe
    recs: List[Dict[str, Any]] = []
    probe = None
    runs = [dict(maxlen=0, tokchars=2, maxtoks=2, partchars=1, next="Next"),     # every start pointer (round trip, equality)
            dict(maxlen=2, tokchars=1, maxtoks=1, partchars=1, next="Next")]     # every chain of 2 actions
    if tier == "thorough":
        runs += [dict(maxlen=3, tokchars=1, maxtoks=1, partchars=1, next="Next"),
                 dict(maxlen=1, tokchars=2, maxtoks=1, partchars=2, next="Next"),
                 dict(maxlen=0, tokchars=1, maxtoks=4, partchars=1, next="Next")]
    sims = [(2000, 7)] if tier == "quick" else [(60000, 9)]
    for cfg in runs:
        r = tlc("MC_PtrNav", CFG.format(**cfg), timeout=2400)
        chk.add_tlc(r)
        for x in r.records:
            if "probe" in x:
                probe = x["probe"]
            else:
                recs.append(x)
    for num, depth in sims:
        r = tlc("MC_PtrNav", CFG.format(maxlen=depth - 1, tokchars=2, maxtoks=2, partchars=2, next="NextSim"),
                simulate=(num, depth), seed=seed, workers=1, timeout=2400)
        chk.add_tlc(r)
        recs += [x for x in r.records if "probe" not in x]
    assert probe is not None
    for rec, res in zip(recs, core.pmap(replay, [(r_, probe) for r_ in recs])):
        chk.traces += 1
        if rec["hist"] or rec["start"]["toks"]:
            chk.nontrivial.add(hash((untext(rec["start"]["text"]), tuple((h["act"], untext(h["arg"])) for h in rec["hist"]))))
        for sig, case, what in res:
            chk.violation(sig, case, what)
    for rec in [x for x in recs if x["hist"]][:3] + recs[100:102]:
        chk.sample({"start": untext(rec["start"]["text"]), "actions": [(h["act"], untext(h["arg"])) for h in rec["hist"]],
                    "expect_text": untext(rec["hist"][-1]["obs"]["text"]) if rec["hist"] else untext(rec["start"]["text"])})
    chk.exhaustive = True
    chk.rule = ("behaviours of MC_PtrNav.tla: all token sequences (<=2 tokens of <=2 characters over ~ / 0 1 - + SP # a e-acute, "
                "incl. the empty token) and all chains of join / slash / parent actions up to the bound from 12 start pointers, plus seeded "
                "random walks; non-trivial = at least one token or action; distinct by (start text, action list)")
    chk.assumptions += ["tokens contain no backslash; joined tokens have no leading blank (the property's restriction)",
                        "resolution law is not checked for '#'/'~'-prefixed and negative-integer tokens (documented extensions)"]


def replay_file(case: Dict[str, Any]) -> int:
    r = tlc("MC_PtrNav", CFG.format(maxlen=0, tokchars=0, maxtoks=0, partchars=0, next="Next"))
    probe = [x for x in r.records if "probe" in x][0]["probe"]
    res = replay((case["case"]["tagged"], probe))
    for sig, c, what in res:
        print("DIVERGENCE", sig, c["failed"])
    return 1 if res else 0
