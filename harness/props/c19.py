"""C19 - projection returns exactly the selected values, nothing more, in place
(spec: Projection.tla, MC_Projection.tla).

TLC runs the selection machine (match query, then the relative queries one by one) over
documents x match queries x lists of relative queries, keeps the admissible ones (below
the match, none a prefix of another, per-array ascending), checks that the declarative and
the constructive formulation of the projection agree, that every selected value is found at
its rank-mapped location and that no other leaves exist, and exports the expected flat /
relative / root projections; the harness calls Query.select() and compares.
"""
from __future__ import annotations

import json
from typing import Any, Dict, List, Tuple

from .. import core
from ..core import Check, canon, exc_family, show, tag, tlc, untag, untext

CFG = """CONSTANTS MaxRel = {n}
SPECIFICATION Spec
INVARIANT TwoFormulations
INVARIANT Found
INVARIANT NoOtherLeaves
INVARIANT Export
INVARIANT ExportNested
PROPERTY Terminates
"""


def replay(rec: Dict[str, Any]) -> List[Tuple[str, Dict[str, Any], str]]:
    import jsonpath
    from jsonpath import Projection

    mq = untext(rec["match"])
    rels = [untext(r) for r in rec["rels"]]
    if rec.get("nested"):
        return replay_nested(rec, mq, rels)
    for style, key in ((Projection.FLAT, "flat"), (Projection.RELATIVE, "relative"), (Projection.ROOT, "root")):
        exp = [canon(v) for v in rec[key]]
        doc = untag(rec["doc"])
        disc = ""
        got: Any = None
        for compiled in (False, True, "foreign", "leading-dot"):
            try:
                if not compiled:
                    # another environment with other decoding options selects with the same expression texts first:
                    # what an expression text means belongs to the environment of the query it is used with
                    try:
                        list(jsonpath.JSONPathEnvironment(unicode_escape=False).query(mq, untag(rec["doc"])).select(*rels, projection=style))
                    except BaseException:  # noqa: BLE001
                        pass
                if compiled == "foreign":
                    # relative queries compiled by another environment (its own root spelling): a compiled query is used as it is, whoever compiled it

                    class Foreign(jsonpath.JSONPathEnvironment):
                        root_token = "\u20ac"

                    fenv = Foreign(unicode_escape=False) if not any("\\" in r for r in rels) else Foreign()
                    args = [fenv.compile("\u20ac" + r[1:] if r.startswith("$") else r) for r in rels]
                elif compiled == "leading-dot":
                    # a relative query is what follows the root identifier: written with its leading dot (".x" for "x") it is the same
                    # child segment - where such a text is accepted at all (refusing it is no concern of this property)
                    args = ["." + r if (r[:1].isalpha() or r[:1] == "_" or not r[:1].isascii()) else r for r in rels]
                    if args == rels:
                        continue
                    try:
                        for a in args:
                            jsonpath.compile(a)
                    except jsonpath.JSONPathError:
                        continue
                else:
                    args = [jsonpath.compile(r) for r in rels] if compiled else rels
                qobj = jsonpath.query(mq, doc)
                lazy = qobj.select(*args, projection=style)
                # a second selection asked of the same query before the first is read changes nothing about the first
                qobj.select("nowhere.at.all", projection=(Projection.FLAT if style != Projection.FLAT else Projection.ROOT))
                got = list(lazy)
                if isinstance(doc, (list, dict)) and key == "flat":
                    # the document as JSON text: selected from, the selections edited by the caller, selected from again
                    tdoc = json.dumps(doc)
                    for v in list(jsonpath.query(mq, tdoc).select(*args, projection=style)):
                        if isinstance(v, list):
                            for x in v:
                                if isinstance(x, list):
                                    x.append("edited-by-caller")
                                elif isinstance(x, dict):
                                    x["edited-by-caller"] = True
                    again = list(jsonpath.query(mq, tdoc).select(*args, projection=style))
                    if json.dumps(again, sort_keys=True) != json.dumps(got, sort_keys=True):
                        got = again      # judged below like any other result
                obs = [canon(tag(v)) for v in got]
                if obs != exp:
                    disc = "wrong-projection" if len(obs) == len(exp) else "wrong-number-of-projections"
                elif canon(tag(doc)) != canon(rec["doc"]):
                    disc = "document-modified"
            except BaseException as e:  # noqa: BLE001
                disc = f"raised-{exc_family(e)}"
            if disc:
                break
        if disc:
            shape = "array-match" if any(isinstance(v, list) for v in [got]) else ""
            feat = "+".join(sorted({("slice" if ":" in r else "wild" if "*" in r else "list" if "," in r else "index" if "[" in r else "name") for r in rels}))
            return [(f"{key}:{disc}|{feat}", {"doc": show(rec["doc"]), "match_query": mq, "relative_queries": rels, "style": key,
                                               "expected": [show(v) for v in rec[key]], "observed": got, "tagged": rec}, disc)]
    return []


def replay_nested(rec: Dict[str, Any], mq: str, rels: List[str]) -> List[Tuple[str, Dict[str, Any], str]]:
    """One selection lies below another: the flat projection and 'the document is not modified' are still determined."""
    import jsonpath
    from jsonpath import Projection

    for style, key in ((Projection.RELATIVE, "relative"), (Projection.ROOT, "root"), (Projection.FLAT, "flat")):
        doc = untag(rec["doc"])
        disc = ""
        got: Any = None
        try:
            if rec.get("haskeys"):
                # member names among the selections: whatever comes of it - a projection, a refusal - the document stays as it was
                try:
                    got = list(jsonpath.query(mq, doc).select(*rels, projection=style))
                except BaseException:  # noqa: BLE001
                    got = None
                if canon(tag(doc)) != canon(rec["doc"]):
                    disc = "document-modified"
                if disc:
                    return [(f"{key}:{disc}|nested-selections-with-member-names", {"doc": show(rec["doc"]), "match_query": mq, "relative_queries": rels, "style": key,
                                                                                 "expected": "document unchanged", "observed": show(tag(doc)), "tagged": rec}, disc)]
                continue
            got = list(jsonpath.query(mq, doc).select(*rels, projection=style))
            if canon(tag(doc)) != canon(rec["doc"]):
                disc = "document-modified"
            elif key == "flat" and [canon(tag(v)) for v in got] != [canon(v) for v in rec["flat"]]:
                disc = "wrong-projection"
        except BaseException as e:  # noqa: BLE001
            disc = f"raised-{exc_family(e)}"
        if disc:
            return [(f"{key}:{disc}|nested-selections", {"doc": show(rec["doc"]), "match_query": mq, "relative_queries": rels, "style": key,
                                                        "expected": [show(v) for v in rec["flat"]], "observed": got, "tagged": rec}, disc)]
    return []


def run(chk: Check, tier: str, seed: int) -> None:
    r = tlc("MC_Projection", CFG.format(n=2 if tier == "quick" else 3), timeout=3000)
    chk.add_tlc(r)
    recs = r.records
    for rec, res in zip(recs, core.pmap(replay, recs)):
        chk.traces += 3
        if any(n >= 1 for n in rec["nsel"]):
            chk.nontrivial.add((json.dumps(rec["doc"])[:40], untext(rec["match"]), tuple(untext(x) for x in rec["rels"])))
        for sig, case, what in res:
            chk.violation(sig, case, what)
    for rec in [x for x in recs if x.get("relative")][40:43]:
        chk.sample({"match": untext(rec["match"]), "select": [untext(x) for x in rec["rels"]], "relative": [show(v) for v in rec["relative"]], "root": [show(v) for v in rec["root"]]})
    chk.exhaustive = True
    chk.rule = ("terminal admissible states of MC_Projection.tla: 2 documents x 11 match queries x all lists of 1-2 (thorough 3) relative queries from a pool of 19 "
                "(names, indices, lists, slices, wildcards, nested; falsy values, integer-looking names, sparse arrays), 3 styles, relative queries as text and "
                "compiled; non-trivial = something selected; distinct by (document, match query, relative queries)")
    chk.assumptions += ["projected objects are compared without regard to member order"]


def replay_file(case: Dict[str, Any]) -> int:
    res = replay(case["case"]["tagged"])
    for sig, c, what in res:
        print("DIVERGENCE", sig, c["match_query"], c["relative_queries"], c["expected"], c["observed"])
    return 1 if res else 0
