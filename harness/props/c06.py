"""C06 - only the documented error families ever escape; every call terminates
(spec: Api.tla protocol, Trace_Api.tla trace validation, MC_Soup.tla input enumeration).

Direction code -> specification.  TLC enumerates the inputs (every lexeme soup up to a
length bound and every single-lexeme mutant of valid sentences, for queries, pointers,
relative pointers; patch operation lists with wrong / missing members).  A recorder runs
each through a session of real API calls under a watchdog and logs, per call, the outcome
class (ok / error family / foreign:<class> / timeout) and whether str(exc) worked.  TLC then
validates every recorded session against the session machine of Api.tla; a session that is
not a behaviour of the specification is rejected with the failing clause.
"""
from __future__ import annotations

import json
import os
import signal
from typing import Any, Dict, List, Tuple

from .. import core
from ..core import Check, MachineryError, exc_family, tlc

LEVEL = "exploration"

GEN = """CONSTANTS Lang = "{lang}"
 MaxLen = {n}
 Mode = "{mode}"
INIT Init
NEXT Next
INVARIANT Export
"""
TRACE = """SPECIFICATION Spec
INVARIANT NoStuck
PROPERTY Verdicts
"""
MIXED = [{"a": x, "b": y} for x in ([1], {"k": 1}, "x", 1, None, True) for y in ({"x": 1}, [["x"], [1]], "xyz", 1, None)]
BIGNUM = 10 ** 400      # a JSON number no double can hold (json.loads reads it as an int)
VALS = [1, "s", None, True, {"a": {"b": 1}}, [1, [2]], 1.5, "", [], {}, 0, False, BIGNUM, -BIGNUM, {"a": BIGNUM, "b": 1}]
DOCS = [{"a": list(VALS), "b": "str", "c": None, "1": 1, "": 0, "é": [1]}, list(VALS) + [{"a": list(VALS)}], 5, None, True, 1.5, "plain text", {"a": "s"}, [], MIXED, {"a": [], "b": [[], [1]]}]
PDOCS = [{"a": [1, 2], "b": {"c": 1}}, [1], 5, "s", None, {"a": {"0": 1}}, {}]
BASES = ["", "/a/0", "/a", "/0/1/2", "/\u00b2", "/a/\u0662", "/a/-5"]      # (a superscript two and an Arabic-Indic two: digits to the host, not indices)


class _TO(BaseException):
    pass


# calls that hit the watchdog, counted across the forked recorder processes; once a tree has shown this many
# the remaining sessions are not recorded (the run has failed already and each further hang costs 5 s)
import multiprocessing

HANGS = multiprocessing.Value("i", 0)
HANG_LIMIT = 48


def _alarm(*_a: Any) -> None:
    raise _TO()


def call(fn: Any) -> Tuple[str, bool, Any]:
    """Run one API call under a watchdog -> (outcome, str_ok, value)."""
    old = signal.signal(signal.SIGALRM, _alarm)
    signal.setitimer(signal.ITIMER_REAL, 5.0)
    try:
        v = fn()
        return "ok", True, v
    except _TO:
        with HANGS.get_lock():
            HANGS.value += 1
        return "timeout", True, None
    except RecursionError:
        return "foreign:RecursionError", True, None
    except BaseException as e:  # noqa: BLE001
        fam = exc_family(e)
        try:
            str_ok = isinstance(str(e), str) and isinstance(repr(e), str)
        except BaseException:  # noqa: BLE001
            str_ok = False
        return fam, str_ok, None
    finally:
        signal.setitimer(signal.ITIMER_REAL, 0)
        signal.signal(signal.SIGALRM, old)


def decode(code: str) -> Any:
    if code.startswith("s:"):
        return code[2:]
    if code.startswith("h:"):
        return code[2:] + "9" * 4400
    return {"n:1": 1, "l:": [], "null": None}[code]




def session(item: Tuple[str, Any]) -> Dict[str, Any]:
    """Run the calls of one session against the real API and record the events."""
    import copy

    import jsonpath
    from jsonpath import JSONPatch, JSONPointer, RelativeJSONPointer

    lang, s = item
    if HANGS.value >= HANG_LIMIT:
        return {"skipped": True, "lang": lang, "input": "", "events": []}
    if lang != "patch":
        s = [{"EACUTE": "\u00e9", "SUPER2": "\u00b2", "ARDIGIT1": "\u0661", "HUGE": "9" * 4400, "LIMIT4300": "9" * 4300, "SQRUN": "'" + "\\" * 70, "DQRUN": '"' + "\\" * 70, "RERUN": "/" + "\\" * 70}.get(x, x) for x in s]
    ev: List[Dict[str, Any]] = []

    def log(name: str, fn: Any) -> Any:
        out, ok, v = call(fn)
        ev.append({"call": name, "outcome": out, "str_ok": ok})
        return v if out == "ok" else None

    if lang == "path":
        text = "".join(s)
        p = log("compile", lambda: jsonpath.compile(text))
        if p is not None:
            for d in DOCS:
                doc = copy.deepcopy(d)
                log("evaluate", lambda: [m.path for m in p.finditer(doc, filter_context={"a": 1})])
            log("evaluate", lambda: str(p) and jsonpath.compile(str(p)) and 0)
            if "(" in text:
                # the same text compiled by an environment of the caller's own, whose function registry is emptied afterwards:
                # evaluating the compiled query still raises nothing but errors of the family
                def orphaned() -> Any:
                    e2 = jsonpath.JSONPathEnvironment()
                    p2 = e2.compile(text)
                    e2.function_extensions.clear()
                    return [[m.path for m in p2.finditer(copy.deepcopy(d), filter_context={"a": 1})] for d in DOCS[:4]]

                log("evaluate", orphaned)
    elif lang == "pointer-uri":
        # the same texts read as the caller of a URI fragment would read them: percent-decoding on (escapes that are not UTF-8 included)
        lang = "pointer"
        text = "".join(s)
        p = log("pointer", lambda: JSONPointer(text, uri_decode=True))
        if p is not None:
            for d in DOCS[:2] + PDOCS[:2]:
                log("resolve", lambda: p.resolve(copy.deepcopy(d)))
            log("join", lambda: p.join("%ff"))
    elif lang == "pointer":
        text = "".join(s)
        p = log("pointer", lambda: JSONPointer(text))
        if p is not None:
            for d in DOCS[:3] + PDOCS:
                log("resolve", lambda: p.resolve(copy.deepcopy(d)))
            for part in ("a", "~", "/x", "\\ud800", "0"):
                log("join", lambda: p.join(part))
        p2 = None
        if "\\" in text:
            out, ok, v = call(lambda: JSONPointer(text, unicode_escape=False))
            if out == "ok":
                ev_before = len(ev)
    elif lang == "relptr":
        text = "".join(s)
        r = log("relptr", lambda: RelativeJSONPointer(text))
        if r is not None:
            for b in BASES:
                log("to", lambda: r.to(JSONPointer(b)))
            log("to", lambda: str(r))
    else:  # patch
        ops = []
        for o in s:
            if o["path"] == "elem":      # not an operation object: the decoded value itself is the list element
                ops.append(decode(o["op"]))
                continue
            d = {}
            for k in ("op", "path", "from", "value"):
                if o[k] != "absent":
                    d[k] = decode(o[k])
            ops.append(d)
        text = json.dumps(ops)
        pt = log("patch", lambda: JSONPatch(copy.deepcopy(ops)))
        if pt is not None:
            for d in PDOCS:
                log("apply", lambda: pt.apply(copy.deepcopy(d)))
            log("apply", lambda: pt.asdicts() and 0)
    return {"lang": lang, "input": text, "events": ev}


def run(chk: Check, tier: str, seed: int) -> None:
    items: List[Tuple[str, Any]] = []
    plan = [("path", 3 if tier == "thorough" else 2, "soup"), ("path", 0, "mutants"), ("pointer", 4 if tier == "thorough" else 3, "soup"), ("pointer", 0, "mutants"),
            ("relptr", 5 if tier == "thorough" else 4, "soup"), ("relptr", 0, "mutants"), ("patch", 1, "soup"), ("patch", 2, "soup")]
    jobs = [("MC_Soup", GEN.format(lang=l, n=n, mode=m), dict(timeout=3000, workers=4)) for l, n, m in plan]
    for (l, n, m), r in zip(plan, core.tlc_parallel(jobs, threads=8)):
        chk.add_tlc(r)
        chk.extra[f"inputs_{l}_{m}_{n}"] = len(r.records)
        items += [(l, x["s"]) for x in r.records]
        if l == "pointer":
            items += [("pointer-uri", x["s"]) for x in r.records if any("%" in lx for lx in x["s"])]
    # longer soups by seeded sampling of the same alphabet (python side: positions only; alphabet from the spec's own exports)
    sessions = list(core.pmap(session, items, item_timeout=120))
    abnormal = 0
    clean: List[Dict[str, Any]] = []
    for it, s in zip(items, sessions):
        if isinstance(s, list):  # abnormal result from pmap (hang / crash of the interpreter)
            abnormal += 1
            chk.violation(f"{s[0][0]}|{it[0]}", {"lang": it[0], "input": it[1]}, s[0][2])
        elif not s.get("skipped"):
            clean.append(s)
    chk.extra["sessions_not_recorded_after_repeated_hangs"] = sum(1 for s in sessions if isinstance(s, dict) and s.get("skipped"))
    for i, s in enumerate(clean):
        s["id"] = i + 1
    # ---- trace validation by TLC, sharded
    sc = core.scratch()
    nshards = 8
    tjobs = []
    for k in range(nshards):
        part = clean[k::nshards]
        pth = sc / f"api-trace-{os.getpid()}-{k}.ndjson"
        with open(pth, "w") as f:
            for s in part:
                f.write(json.dumps({"id": s["id"], "events": s["events"]}) + "\n")
        tjobs.append(("Trace_Api", TRACE, dict(env={"TRACE_FILE": str(pth)}, workers=2, timeout=3000)))
    rejects: Dict[int, Dict[str, Any]] = {}
    validated = 0
    for r in core.tlc_parallel(tjobs, threads=8):
        chk.add_tlc(r)
        for x in r.records:
            rejects[x["reject"]] = x
    events = 0
    kinds = set()
    for s in clean:
        events += len(s["events"])
        for e in s["events"]:
            kinds.add((s["lang"], e["call"], e["outcome"]))
        rj = rejects.get(s["id"])
        if rj:
            e = s["events"][rj["at"] - 1]
            sig = f"{e['call']}|{e['outcome']}|{rj['why']}"
            chk.violation(sig, {"lang": s["lang"], "input": s["input"], "call_index": rj["at"], "event": e, "events": s["events"]}, f"{e['call']} -> {e['outcome']}")
    chk.traces = len(clean)
    chk.evaluations = events
    for k in kinds:
        chk.nontrivial.add(k)
    chk.extra["sessions_validated_by_tlc"] = len(clean)
    chk.extra["api_calls_recorded"] = events
    chk.extra["sessions_rejected"] = len(rejects)
    chk.extra["distinct_(language,call,outcome)_triples"] = sorted(map(list, kinds))
    for s in clean[1000:1002] + clean[-2:]:
        chk.sample({"lang": s["lang"], "input": s["input"], "events": s["events"][:3]})
    chk.rule = ("inputs enumerated by MC_Soup.tla: every soup of <=2 (thorough 3) lexemes over a 62-lexeme query alphabet, <=3 (4) over 20 pointer lexemes, <=4 (5) over 15 "
                "relative-pointer lexemes, every single-lexeme mutant (replace / insert / delete) of 12 / 5 / 5 valid sentences, every single patch operation over "
                "12x12x6x3 member codes and pairs over a reduced set; accepted inputs are evaluated / resolved / applied on documents of every JSON type; every "
                "recorded session validated by TLC against Api.tla; non-trivial = distinct (language, call, outcome) triples observed")
    chk.assumptions += ["termination is observed under a 5 s watchdog per call, not proved", "inputs nested deeper than 100 levels and regex engine time are outside (the universes contain neither)",
                        "which pointer-error family a malformed relative pointer raises is left open by the statement: either is accepted"]


def replay_file(case: Dict[str, Any]) -> int:
    c = case["case"]
    lang = c["lang"]
    s = session((lang, [c["input"]] if lang != "patch" else [{k: ("s:" + v if isinstance(v, str) else "n:1" if v == 1 else "l:" if v == [] else "null") for k, v in op.items()} | {k: "absent" for k in ("op", "path", "from", "value") if k not in op} for op in json.loads(c["input"])]))
    bad = [e for e in s["events"] if e["outcome"].startswith("foreign") or e["outcome"] == "timeout" or not e["str_ok"]]
    for e in bad:
        print("DIVERGENCE", c["input"], e)
    return 1 if bad else 0
