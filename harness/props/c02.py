"""C02 - filter expressions select exactly the nodes RFC 9535 makes true
(spec: JsonPath.tla Truth/Compare/Call, Regex.tla, MC_Filter.tla).

TLC evaluates, with the segment machine, (a) the comparison table over every ordered pair
of the value universe for all six operators and every operand form, (b) all expression
trees of the shape universes over candidate arrays and objects, (c) the five standard
functions over a regex pool; the comparison algebra and RFC Table 11 are ASSUMEd.  Every
query is rendered in 3 styles and evaluated by the implementation on the same documents
(ints also rendered as floats), comparing the selected children.
"""
from __future__ import annotations

import json
from typing import Any, Dict, List, Tuple

from .. import core
from ..core import Check, untext
from ..pathcommon import DocTable, compare_eval, random_cases, replay_random, run_universes

CFG = """CONSTANTS Universe = "{universe}"
SPECIFICATION Spec
INVARIANT LocOK
INVARIANT Denotation
INVARIANT Export
PROPERTY Terminates
"""
_tables: Dict[str, DocTable] = {}


def replay(rec: Dict[str, Any]) -> List[Tuple[str, Dict[str, Any], str]]:
    u = rec["universe"]
    return compare_eval(rec, _tables[u], styles=(0, 1, 2, 3, 4), float_variants=u.startswith("cmp") or u == "functions")


def run(chk: Check, tier: str, seed: int) -> None:
    universes = ["cmp-pairs", "cmp-lits", "cmp-self", "cmp-root", "functions", "shapes1"] + (["shapes2"] if tier == "thorough" else [])
    recs: List[Dict[str, Any]] = []
    for u in universes:
        docs, rs = run_universes(chk, [u], module="MC_Filter", cfg=CFG)
        _tables[u] = DocTable(docs)
        recs += rs
    ncand = 0
    for rec, res in zip(recs, core.pmap(replay, recs)):
        tbl = _tables[rec["universe"]]
        chk.traces += 5 * len(tbl)
        if any(rec["res"]):
            chk.nontrivial.add(json.dumps(rec["q"], sort_keys=True))
        for sig, case, what in res:
            chk.violation(sig, case, what)
    rnd = random_cases(chk, filters=True, num=4000 if tier == "quick" else 160000, seed=seed, depth=3, segs=2 if tier == "quick" else 3)
    rnd = [x for x in rnd if '"filter"' in json.dumps(x["q"])]
    for rec, res in zip(rnd, core.pmap(replay_random, rnd)):
        chk.traces += 4
        if rec["res"]:
            chk.nontrivial.add(json.dumps((rec["q"], rec["doc"]), sort_keys=True))
        for sig, case, what in res:
            chk.violation(sig, case, what)
    chk.extra["random_document_query_pairs"] = len(rnd)
    for rec in recs[0:1] + recs[200:202] + recs[-2:]:
        chk.sample({"query": untext(rec["texts"][0]), "selected_in_doc0": len(rec["res"][0])})
    chk.exhaustive = True
    chk.rule = ("terminal states of MC_Filter.tla: comparison table = all ordered pairs of a 24-value universe + absent x 6 operators x {@.x op @.y, @.x op literal, "
                "literal op @.x, @ op literal, $.k op @.y}; shapes = all expression trees of depth 1 over 20 atoms (thorough: depth 2 over 5 atoms) on array and "
                "object candidates; functions over 11 regexes; 3 styles; documents also with floats; non-trivial = selects something; distinct by AST")
    chk.assumptions += ["regular expressions are restricted to the modelled common dialect (Regex.tla)", "numbers are multiples of 1/2 within +-2^29"]


def replay_file(case: Dict[str, Any]) -> int:
    if "doc" in case["case"].get("tagged", {}):  # a random (document, query) pair drawn by MC_PathRandom
        res = replay_random(case["case"]["tagged"])
        for sig, c, what in res:
            print("DIVERGENCE", sig, c["query"], c["expected"], c["observed"])
        return 1 if res else 0
    rec = case["case"]["tagged"]
    chk = Check("C02", "quick", 0)
    docs, _ = run_universes(chk, [rec["universe"]], module="MC_Filter", cfg=CFG)
    _tables[rec["universe"]] = DocTable(docs)
    res = replay(rec)
    for sig, c, what in res:
        print("DIVERGENCE", sig, c["query"], c["expected"], c["observed"])
    return 1 if res else 0
