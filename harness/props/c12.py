"""C12 - Query iterator operations behave as list slicing (spec: MC_QueryIter.tla).

TLC enumerates every chain of query operations up to a bound over match lists of
every length (and seeded random walks beyond), with the slicing invariants checked on
the model; each chain is replayed into jsonpath.query(...) once per prefix, so that
after every action all live queries are drained and compared with the model's state.
"""
from __future__ import annotations

import json
from typing import Any, Dict, List, Tuple

from .. import core
from ..core import Check, tlc

CFG = """CONSTANTS MaxN = {maxn}
 MaxOps = {maxops}
INIT Init
NEXT {next}
INVARIANT SliceInv
INVARIANT Export
{props}
"""
PROPS = "PROPERTY TakeConserves\nPROPERTY RefusalIsNoOp\nPROPERTY TeeCopies\nPROPERTY ReadOnce"

ALIASES = {"limit": ["limit", "head", "first"], "skip": ["skip", "drop"], "tail": ["tail", "last"],
           "first_one": ["first_one", "one"], "last_one": ["last_one"], "view": ["values", "locations", "items", "pointers"],
           "take": ["take"], "tee": ["tee"]}


def ids_of(view: str, got: Any) -> Any:
    """Map what a view returned back to match ids (values are 10+i at index i, ids are 1-based)."""
    out = []
    for x in got:
        if view == "values":
            out.append(x - 9)
        elif view == "locations":
            out.append(int(x[2:-1]) + 1 if x.startswith("$[") else ("?", x))
        elif view == "items":
            out.append(int(x[0][2:-1]) + 1 if x[1] == 10 + int(x[0][2:-1]) else ("?", x))
        else:
            out.append(int(str(x)[1:]) + 1)
    return out


def idx(i: int, dup: bool) -> int:
    """Array index of match id i: its own (ids 1..n over $[*]) or, when the same node is visited more than once, shared by two ids."""
    return (i - 1) // 2 if dup else i - 1


NULLS = [False]      # replay mode: every matched value is null (a value like any other)
NAMED = [False]      # replay mode: the matches are the members of an object whose names need escaping in paths and pointers
NAMES = ["C:\\temp\\new", "caf\\u00e9", "a/b", "~x", "it's", ""]                  # (backslash + t / n / u00e9 as plain characters)
NAME_PATHS = ["$['C:\\\\temp\\\\new']", "$['caf\\\\u00e9']", "$['a/b']", "$['~x']", "$['it\\'s']", "$['']"]
NAME_PTRS = ["/C:\\temp\\new", "/caf\\u00e9", "/a~1b", "/~0x", "/it's", "/"]


def val(j: int) -> Any:
    return None if NULLS[0] else 10 + j


def forward(view: str, ids: List[int], dup: bool) -> List[Any]:
    """What a view has to list for these match ids."""
    out: List[Any] = []
    for i in ids:
        j = idx(i, dup)
        if NAMED[0]:
            out.append(val(j) if view == "values" else NAME_PATHS[j] if view == "locations" else (NAME_PATHS[j], val(j)) if view == "items" else NAME_PTRS[j])
            continue
        out.append(val(j) if view == "values" else f"$[{j}]" if view == "locations" else (f"$[{j}]", val(j)) if view == "items" else f"/{j}")
    return out


def run_prefix(n: int, hist: List[Dict[str, Any]], k: int, salt: int, dup: bool = False, statement: bool = False) -> Tuple[List[str], Dict[int, Any]]:
    """Apply the first k actions; returns (discrepancies at action k, live queries)."""
    import jsonpath

    text = "$[" + ",".join(str(idx(i, True)) for i in range(1, n + 1)) + "]" if dup and n else "$[*]"
    qs: Dict[int, Any] = {1: jsonpath.query(text, [val(i) for i in range(n)])}
    if NAMED[0]:
        qs = {1: jsonpath.query("$.*", {NAMES[i]: val(i) for i in range(n)})}
    if dup and n >= 3 and k == 1:
        # an environment of another class, limited to index 0, is asked for the same text: it refuses it (its own limits, not
        # whatever another environment made of the text before)
        from jsonpath.exceptions import JSONPathIndexError

        class Limited(jsonpath.JSONPathEnvironment):
            max_int_index = 0
            min_int_index = 0

        try:
            list(Limited().query(text, [val(i) for i in range(n)]))
            return ["query:another-environment-answered-with-the-first-environments-query"], {}
        except JSONPathIndexError:
            pass
        except BaseException as e:  # noqa: BLE001
            return [f"query:another-environment-raised-{type(e).__name__}"], {}
    bad: List[str] = []
    for j, h in enumerate(hist[:k]):
        last = j == k - 1
        names = ALIASES[h["op"]]
        name = names[(salt + j) % len(names)]
        q = qs[h["q"]]
        exp = h["ret"]
        try:
            if h["op"] in ("limit", "skip", "tail"):
                r = getattr(q, name)(h["c"])
                if r is not None and not statement:
                    qs[h["q"]] = r  # chained style: whichever object the operation hands back is the query from now on
                # (statement style: `q.tail(2)` on its own line, then `q` again - the documentation says these methods return self)
            elif h["op"] == "take":
                r = q.take(h["c"])
                qs[2 + sum(x["created"] for x in hist[:j])] = r
            elif h["op"] == "tee":
                rs = q.tee(h["c"])
                if last and len(rs) != h["c"]:
                    bad.append("tee:wrong-number-of-queries")
                del qs[h["q"]]
                # ids continue after all queries ever created
                nid = 2 + sum(x["created"] for x in hist[:j])
                for i, rq in enumerate(rs):
                    qs[nid + i] = rq
            else:
                if h["op"] == "view":
                    got = list(getattr(q, name)())
                    if dup or NULLS[0] or NAMED[0]:
                        got = [str(x) if name == "pointers" else tuple(x) if name == "items" else x for x in got]
                        obs = {"k": "list", "ids": exp["ids"] if got == forward(name, exp["ids"], dup) else ["?", str(got)[:80]]}
                    else:
                        obs = {"k": "list", "ids": ids_of(name, got)}
                elif dup or NULLS[0] or NAMED[0]:
                    m = getattr(q, name)()
                    obs = ({"k": "nothing", "ids": []} if m is None else
                           {"k": "match", "ids": exp["ids"] if exp["ids"] and (m.obj, m.path) == (val(idx(exp["ids"][0], dup)), forward("locations", exp["ids"][:1], dup)[0]) else ["?", m.path]})
                else:
                    m = getattr(q, name)()
                    obs = {"k": "nothing", "ids": []} if m is None else {"k": "match", "ids": [m.obj - 9]}
                if last and (obs["k"] != exp["k"] or obs["ids"] != exp["ids"]):
                    bad.append(f"{name}:returned-{obs['k']}{obs['ids']}-expected-{exp['k']}{exp['ids']}")
            if exp["k"] == "valueError" and last:
                bad.append(f"{name}:negative-count-accepted")
        except ValueError:
            if exp["k"] != "valueError":
                if last:
                    bad.append(f"{name}:unexpected-ValueError")
                return bad, {}
        except BaseException as e:  # noqa: BLE001
            if last:
                bad.append(f"{name}:raised-{type(e).__name__}")
            return bad, {}
    return bad, qs


def replay(rec: Dict[str, Any]) -> List[Tuple[str, Dict[str, Any], str]]:
    n, hist = rec["n"], rec["hist"]
    salt = (n * 7 + len(hist) * 3 + sum(h["c"] for h in hist)) % 12
    # model state after each prefix: recompute rem/live by replaying the model's own records is not
    # needed - the exported record carries the final state, and every prefix is itself an exported
    # behaviour when the chain bound is larger; here the final state is compared after the full
    # chain and return values after each prefix.
    bad: List[str] = []
    for dup, statement, nulls, named in ((False, False, False, False), (True, False, False, False), (False, True, False, False), (False, False, True, False),
                                          (False, False, False, True)):
        # distinct nodes; every node visited twice; statement style; every value null; members with names that need escaping
        if named and n > len(NAMES):
            continue
        NULLS[0] = nulls
        NAMED[0] = named
        tagd = "revisited-nodes:" if dup else "statement-style:" if statement else "null-values:" if nulls else "escaped-names:" if named else ""
        for k in range(1, len(hist) + 1):
            b, qs = run_prefix(n, hist, k, salt, dup, statement)
            if b:
                bad = [f"step{k}:{tagd}{x}" for x in b]
                break
        if not bad:
            b, qs = run_prefix(n, hist, len(hist), salt, dup, statement)
            for q, alive in enumerate(rec["live"], 1):
                if not alive:
                    continue
                if q not in qs:
                    bad.append(f"final:{tagd}query-{q}-missing")
                    continue
                got = [m.path for m in qs[q]] if nulls or named else [m.obj for m in qs[q]] if dup else [m.obj - 9 for m in qs[q]]
                if got != (forward("locations", rec["rem"][q - 1], False) if nulls or named else forward("values", rec["rem"][q - 1], True) if dup else rec["rem"][q - 1]):
                    bad.append(f"final:{tagd}remaining-differs")
                    break
        if bad:
            break
    NULLS[0] = False
    NAMED[0] = False
    if not bad:
        return []
    ops = ">".join(h["op"] + ("-" if h["c"] < 0 else "") for h in hist)
    sig = f"{bad[0].split(':', 1)[1].split('[')[0]}|{ops}"
    case = {"n": n, "chain": [(h["op"], h["q"], h["c"]) for h in hist], "expected_remaining": rec["rem"], "failed": bad, "tagged": rec}
    return [(sig, case, bad[0])]


def run(chk: Check, tier: str, seed: int) -> None:
    recs: List[Dict[str, Any]] = []
    seen = set()
    runs = [(4, 1), (4, 2), (3, 3)] if tier == "quick" else [(6, 1), (6, 2), (4, 3), (1, 4)]
    for maxn, maxops in runs:
        r = tlc("MC_QueryIter", CFG.format(maxn=maxn, maxops=maxops, next="Next", props=PROPS), timeout=3000)
        chk.add_tlc(r)
        for x in r.records:
            k = json.dumps((x["n"], x["hist"]))
            if k not in seen:
                seen.add(k)
                recs.append(x)
    num, depth = (3000, 8) if tier == "quick" else (40000, 11)
    r = tlc("MC_QueryIter", CFG.format(maxn=6, maxops=depth - 1, next="NextSim", props=""), simulate=(num, depth), seed=seed, workers=1, timeout=3000)
    chk.add_tlc(r)
    for x in r.records:
        k = json.dumps((x["n"], x["hist"]))
        if k not in seen:
            seen.add(k)
            recs.append(x)
    for rec, res in zip(recs, core.pmap(replay, recs)):
        chk.traces += 1
        if len(rec["hist"]) >= 2 and rec["n"] >= 1:
            chk.nontrivial.add(hash(json.dumps((rec["n"], rec["hist"]))))
        for sig, case, what in res:
            chk.violation(sig, case, what)
    for rec in recs[len(recs) // 2: len(recs) // 2 + 3] + recs[-2:]:
        chk.sample({"n": rec["n"], "chain": [(h["op"], h["q"], h["c"]) for h in rec["hist"]], "remaining_per_query": rec["rem"]})
    chk.rule = ("behaviours of MC_QueryIter.tla: all chains of limit/skip/tail/take/tee/first_one/last_one/view operations (aliases rotated by the replay) "
                "with counts {-1,0,1,2,n,n+1} on any live query, exhaustively to length 3 (thorough 4) over lists of length 0..4 (6), random walks to "
                "length 7 (10); replayed once per prefix; non-trivial = >=2 operations on a non-empty list; distinct by (n, chain)")
    chk.assumptions += ["'remaining' is read as single-pass: first_one/one consumes the match it returns, last_one and the views consume everything they read; "
                        "the query stays usable and what it still holds is compared after every chain"]


def replay_file(case: Dict[str, Any]) -> int:
    res = replay(case["case"]["tagged"])
    for sig, c, what in res:
        print("DIVERGENCE", sig, c["failed"])
    return 1 if res else 0
