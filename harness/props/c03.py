"""C03 - every match location (path, parts, pointer, parent) identifies exactly that node
(spec: Render.tla NormPath, Pointer.tla, MC_PathEval.tla node tables).

The C01 product is evaluated and, per match, the normalized path must equal the
specification's RFC 9535 2.7 path of the node's location, re-evaluate to exactly that
object, the pointer (and its text parsed again) must resolve to the same object, the
parent must be the match one step shorter, and equal paths <=> same node.
"""
from __future__ import annotations

import json
from typing import Any, Dict, List, Tuple

from .. import core
from ..core import Check, exc_family, loc_to_parts, show, untext
from ..pathcommon import DocTable, lockey, run_universes, sel_features, walk

_table: Any = None


def check_match(m: Any, doc: Any, d: int, tbl: DocTable) -> str:
    import jsonpath
    from jsonpath import JSONPointer

    key = lockey(core.parts_to_loc(m.parts))
    node = tbl.by_loc[d].get(key)
    if node is None:
        return "parts-not-a-location-of-the-document"
    if m.obj is not walk(doc, node["loc"]):
        return "parts-do-not-lead-to-the-value"
    if m.path != untext(node["path"]):
        return "path-is-not-the-normalized-path"
    try:
        again = list(jsonpath.finditer(m.path, doc))
    except BaseException as e:  # noqa: BLE001
        return f"path-does-not-compile-{exc_family(e)}"
    if len(again) != 1:
        return f"path-selects-{len(again)}-nodes"
    if "\\" in m.path:
        # the same path text read by an environment before and after its decoding option was switched on
        try:
            e2 = jsonpath.JSONPathEnvironment(unicode_escape=False)
            try:
                e2.findall(m.path, doc)
            except Exception:  # noqa: BLE001
                pass
            e2.unicode_escape = True
            got = e2.findall(m.path, doc)
            if len(got) != 1 or got[0] is not m.obj:
                return "path-selects-another-node-in-an-environment-that-read-it-before-its-options-changed"
        except BaseException as e:  # noqa: BLE001
            return f"path-does-not-compile-{exc_family(e)}"
    if again[0].obj is not m.obj:
        return "path-selects-another-node"
    try:
        ptr = m.pointer()
        if str(ptr) != untext(node["ptr"]):
            return "pointer-text-differs"
        if ptr.resolve(doc) is not m.obj:
            return "pointer-resolves-elsewhere"
        if "\\" not in str(ptr) and JSONPointer(str(ptr)).resolve(doc) is not m.obj:
            return "pointer-text-parsed-again-resolves-elsewhere"
        if JSONPointer(str(ptr), unicode_escape=False).resolve(doc) is not m.obj:
            return "pointer-text-parsed-again-resolves-elsewhere-noescape"
    except BaseException as e:  # noqa: BLE001
        return f"pointer-raised-{exc_family(e)}"
    if m.parts:
        if m.parent is None or tuple(m.parent.parts) != tuple(m.parts[:-1]):
            return "parent-is-not-one-step-shorter"
        if m.parent.obj is not walk(doc, node["loc"][:-1]):
            return "parent-value-is-not-the-parent-node"
        # the parent is a match too: its parent is one step shorter again, up to the root match, which has none
        a, k = m.parent, len(m.parts) - 1
        while k > 0:
            if a.parent is None or tuple(a.parent.parts) != tuple(m.parts[:k - 1]) or not m.path.startswith(a.parent.path):
                return "ancestor-is-not-one-step-shorter"
            if a.parent.obj is not walk(doc, node["loc"][:k - 1]):
                return "ancestor-value-is-not-the-ancestor-node"
            a, k = a.parent, k - 1
        if a.parent is not None:
            return "root-match-has-a-parent"
    elif m.parent is not None:
        return "root-match-has-a-parent"
    return ""


def replay(rec: Dict[str, Any]) -> List[Tuple[str, Dict[str, Any], str]]:
    import jsonpath
    from jsonpath.match import NodeList

    tbl: DocTable = _table
    out: List[Tuple[str, Dict[str, Any], str]] = []
    for si in (0, 2, 3, 5):
        text = untext(rec["texts"][si])
        try:
            path = jsonpath.compile(text)
        except BaseException:  # noqa: BLE001  (C01's business)
            continue
        for d in range(len(tbl)):
            doc = tbl.fresh(d)
            disc = ""
            ms: List[Any] = []
            try:
                ms = list(path.finditer(doc))
                beyond: List[Any] = []
                for m in ms:
                    disc = check_match(m, doc, d, tbl)
                    if disc.startswith("pointer-raised") and any(isinstance(p, str) and p.lstrip("-").isdigit() and abs(int(p)) > 2**53 - 1 for p in m.parts):
                        # the recorded finding (an integer member name beyond the index limit) must not hide what
                        # else is wrong in the same result: note it and go on with the other matches
                        beyond.append((disc, m))
                        disc = ""
                        continue
                    if disc:
                        break
                if not disc and beyond:
                    out.append((f"{beyond[0][0]}|member-name-is-an-integer-beyond-the-index-limit", {"query": text, "doc": show(tbl.docs[d]["doc"]),
                                "matches": [(m.path, list(m.parts)) for _, m in beyond][:8], "tagged": rec}, beyond[0][0]))
                if not disc:
                    # equal paths <=> same node
                    byp: Dict[str, Any] = {}
                    for m in ms:
                        if byp.setdefault(m.path, m.parts) != m.parts:
                            disc = "two-nodes-with-one-path"
                    if len({m.path for m in ms}) != len({tuple(m.parts) for m in ms}):
                        disc = disc or "one-node-with-two-paths"
                if not disc and si == 0:
                    if NodeList(ms).paths() != [m.path for m in ms]:
                        disc = "NodeList.paths-differs"
                    elif list(jsonpath.query(text, doc).locations()) != [m.path for m in ms]:
                        disc = "Query.locations-differs"
                    elif [str(p) for p in jsonpath.query(text, doc).pointers()] != [str(m.pointer()) for m in ms]:
                        disc = "Query.pointers-differs"
            except BaseException as e:  # noqa: BLE001
                disc = f"raised-{exc_family(e)}"
            if disc:
                feat = sel_features(rec['q'])
                if disc.startswith("pointer-raised") and any(isinstance(p, str) and p.lstrip("-").isdigit() and abs(int(p)) > 2**53 - 1 for m in ms for p in m.parts):
                    feat = "member-name-is-an-integer-beyond-the-index-limit"
                out.append((f"{disc}|{feat}", {"query": text, "doc": show(tbl.docs[d]["doc"]),
                            "matches": [(m.path, list(m.parts)) for m in ms][:8], "tagged": rec}, disc))
                break
        if out:
            break
    return out


def run(chk: Check, tier: str, seed: int) -> None:
    global _table
    universes = ["one", "names", "namelists", "two"] if tier == "quick" else ["one", "names", "namelists", "list", "two", "three"]
    docs, recs = run_universes(chk, universes)
    _table = DocTable(docs)
    nmatches = 0
    for rec, res in zip(recs, core.pmap(replay, recs)):
        n = sum(len(r) for r in rec["res"])
        nmatches += 3 * n
        chk.traces += 3 * len(docs)
        if n:
            chk.nontrivial.add(json.dumps(rec["q"], sort_keys=True))
        for sig, case, what in res:
            chk.violation(sig, case, what)
    chk.extra["matches_checked"] = nmatches
    for d in docs[10:11]:
        for n in d["nodes"][3:7]:
            chk.sample({"parts": list(loc_to_parts(n["loc"])), "normalized_path": untext(n["path"]), "pointer": untext(n["ptr"])})
    chk.exhaustive = True
    chk.rule = ("the C01 query universes ($-rooted, no keys selector; names: empty, both quotes, backslash, trailing backslash, control characters, '/', '~', "
                "digits-only, non-BMP; negative indices and steps) in 3 styles x 24 documents; every match checked against the specification's node table "
                "(NormPath, PrintPtr(TokensOf(loc))) and by re-evaluation; non-trivial = query has matches; distinct by query AST")
    chk.assumptions += ["object identity is observed with `is` by the harness"]


def replay_file(case: Dict[str, Any]) -> int:
    global _table
    chk = Check("C03", "quick", 0)
    docs, _ = run_universes(chk, ["names"])
    _table = DocTable(docs)
    res = replay(case["case"]["tagged"])
    for sig, c, what in res:
        print("DIVERGENCE", sig, c["query"], c["matches"])
    return 1 if res else 0
