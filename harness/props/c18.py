"""C18 - the command-line tool is a faithful front end to the library (spec: MC_Cli.tla).

TLC explores the CLI phase machine over every option combination of each sub-command x
expression classes x document classes (exit code, one-line message, traceback only with
--debug, no crash state) and exports every terminal state; the harness instantiates each
class with concrete inputs, runs jsonpath.cli.main() in-process with patched argv / stdio,
and compares exit status, output (byte for byte with json.dumps of the library's own
result), stderr line count and absence of a traceback.
"""
from __future__ import annotations

import io
import json
import os
import sys
import traceback as tb
from typing import Any, Dict, List, Tuple

from .. import core
from ..core import Check, exc_family, tlc

CFG = """SPECIFICATION Spec
INVARIANT ExitCodes
INVARIANT Success
INVARIANT Failure
INVARIANT FaithfulFrontEnd
INVARIANT NoCrash
INVARIANT Export
PROPERTY Terminates
"""

OBJ = {"a ": "trailing blank", "a": [1, 2, {"b": 3}], "items": [{"n": 1}, {"n": 2}, {"n": 3}], "é": "e-acute", "\\u00e9": "raw", "x y": "decoded", "x%20y": "literal", "s": "str"}
ARR = [{"a": [1, 2, {"b": 3}], "n": 2}, {"a": [], "n": 0}, "s", {"é": 1, "\\u00e9": 2, "x y": 3, "x%20y": 4, "a ": "trailing blank"}]
DEEP: Any = {"a": [1]}
for _i in range(150):
    DEEP = [DEEP]
DOCS = {"object": json.dumps(OBJ).encode(), "array": json.dumps(ARR).encode(),
        "json-string": b'"[1, 2, {\\"a\\": [3]}]"', "deep-array": json.dumps(DEEP).encode(),
        # legal encodings of JSON text other than plain UTF-8 (RFC 8259 8.1 allows a reader to accept them; json.loads does)
        "object-overflowing-number": json.dumps(OBJ).replace('"a": [1, 2, {"b": 3}]', '"a": [1e999, 2, {"b": -1E+400}]').encode(),
        "object-utf16": json.dumps(OBJ).encode("utf-16"), "object-utf8-bom": b"\xef\xbb\xbf" + json.dumps(OBJ).encode(), "malformed": b'{"a": [1, ', "malformed-scalar": b"tru", "undecodable": b'{"a": "\xff\xfe"}', "empty-file": b""}

PATH = {"ok": "$..a[*]", "ok-filter": "$..[?@.n > 1].n", "ok-escape": "$..['\\u00e9']", "ok-empty-result": "$.nope.nada", "ok-empty-query": "", "ok-union": "$..a[*] | $..n | $.s", "ok-intersection": "$..n & $..[?@.n > 1].n",
        "ok-multiline": "$..[?@.n > 1\n  and @.n < 3\n  or @.n == 1\n].n", "ok-membership": "$.items[?@ in $ || $.a contains @.n || @.n in @]", "huge-literal": "$..[?@.n == " + "9" * 5000 + "]", "syntax": "$[1,,2]",
        "type": "$[?length(@.a, @.b) > 1]", "name": "$[?nosuch(@.a)]", "index": "$[9007199254740992]",
        "illtyped-only-when-checked": "$..[?length(@.*) > 1]", "unterminated": "$['a", "bad-regex": "$..[?@.s =~ /(/]"}
SYNTAX_SAMPLES = ["$[1,,2]", "$.a[-:]", "$[0:2:-]", "$[?@.a ==]", "$.a[:-]", "$[?(@.a]", "$[", "$[?@.a == 1 &&]"]
POINTER = {"object": {"ok": "/a/2/b", "ok-root": "", "ok-escape": "/\\u00e9", "ok-uri": "/x%20y", "ok-nonascii": "/é", "ok-trailing-space": "/a ", "unresolvable-key": "/nope",
                      "unresolvable-index": "/a/99", "into-scalar": "/s/0", "no-leading-slash": "a/b"},
           "array": {"ok": "/0/a/2/b", "ok-root": "", "ok-escape": "/3/\\u00e9", "ok-uri": "/3/x%20y", "ok-nonascii": "/3/é", "ok-trailing-space": "/3/a ", "unresolvable-key": "/0/nope",
                     "unresolvable-index": "/99", "into-scalar": "/2/0", "no-leading-slash": "0/a"}}
PATCH = {"object": {"ok": [{"op": "add", "path": "/a/-", "value": {"k": [0]}}, {"op": "copy", "from": "/items/0", "path": "/c"}, {"op": "test", "path": "/c/n", "value": 1}],
                    "ok-root": [{"op": "replace", "path": "", "value": {"z": [1, True, None]}}], "ok-empty": [],
                    "ok-escape": [{"op": "replace", "path": "/\\u00e9", "value": "REPLACED"}],
                    "test-fails": [{"op": "test", "path": "/a/0", "value": True}], "missing-target": [{"op": "remove", "path": "/nope/x"}]},
         "array": {"ok": [{"op": "add", "path": "/0/a/-", "value": {"k": [0]}}, {"op": "move", "from": "/1", "path": "/-"}],
                   "ok-root": [{"op": "add", "path": "", "value": [1, 2]}], "ok-empty": [],
                   "ok-escape": [{"op": "replace", "path": "/3/\\u00e9", "value": "REPLACED"}],
                   "test-fails": [{"op": "test", "path": "/0/n", "value": "2"}], "missing-target": [{"op": "replace", "path": "/9", "value": 1}]}}
PATCH_ANY = {"non-object-member": b'[{"op": "test", "path": "", "value": 1}, 7]', "not-an-array": b'{"op": "add", "path": "/a", "value": 1}', "malformed-json": b'[{"op": "add", ', "unknown-op": b'[{"op": "frob", "path": "/a"}]',
             "missing-member": b'[{"op": "add", "path": "/a"}]', "bad-pointer": b'[{"op": "add", "path": "a", "value": 1}]', "undecodable": b'[{"op": "\xff"}]'}


def library_result(rec: Dict[str, Any], expr: Any, docobj: Any) -> Any:
    import jsonpath

    o = rec["opts"]
    if rec["cmd"] == "path":
        env = jsonpath.JSONPathEnvironment(unicode_escape=not o["nue"], well_typed=not o["flag"])
        return env.compile(expr).findall(docobj)
    if rec["cmd"] == "pointer":
        return jsonpath.pointer.resolve(expr, docobj, unicode_escape=not o["nue"], uri_decode=o["flag"])
    return jsonpath.patch.apply(expr, docobj, unicode_escape=not o["nue"], uri_decode=o["flag"])


def replay(rec: Dict[str, Any]) -> List[Tuple[str, Dict[str, Any], str]]:
    import jsonpath.cli as cli

    o = rec["opts"]
    cmd, ecls, dcls = rec["cmd"], rec["expr"], rec["doc"]
    work = core.scratch() / f"cli-{os.getpid()}"
    work.mkdir(exist_ok=True)
    docshape = dcls if dcls in ("object", "array") else "object"
    doc_bytes = DOCS[dcls]
    if cmd == "path":
        expr_text: Any = PATH[ecls]
        if ecls == "name":
            # an unknown function: a name that looks like nothing known, or like a known one misspelt
            expr_text = ["$[?nosuch(@.a)]", "$[?lenght(@.a) > 1]", "$[?mach(@.s, 'a')]", "$[?cuont(@.*) == 1]"][(sum(1 for v in o.values() if v) + len(dcls)) % 4]
        if ecls == "syntax":
            # one of several malformed texts, chosen by the option combination
            expr_text = SYNTAX_SAMPLES[(sum(1 for v in o.values() if v) + len(dcls)) % len(SYNTAX_SAMPLES)]
    elif cmd == "pointer":
        expr_text = POINTER[docshape][ecls]
        if ecls == "no-leading-slash":
            # (the URI fragment form of RFC 6901 section 6 is not something the library reads: it begins with '#')
            expr_text = [expr_text, "#/a/0", "#", "#" + POINTER[docshape]["ok"]][(sum(1 for v in o.values() if v) + len(dcls)) % 4]
    else:
        expr_text = PATCH[docshape].get(ecls)
    argv = ["json"]
    if o["debug"]:
        argv.append("--debug")
    if o["pretty"]:
        argv.append("--pretty")
    if o["nue"]:
        argv.append("--no-unicode-escape")
    argv.append(cmd)
    if cmd == "patch":
        pf = work / "patch.json"
        pf.write_bytes(PATCH_ANY[ecls] if expr_text is None else json.dumps(expr_text).encode())
        argv.append(str(pf))
    elif o["inline"]:
        argv += ["-q" if cmd == "path" else "-p", expr_text]
    else:
        ef = work / "expr.txt"
        ef.write_text(expr_text + "\n", encoding="utf-8")
        argv += ["-r", str(ef)]
    stdin_text = ""
    if o["stdin"]:
        stdin_text = doc_bytes.decode("utf-8")
    else:
        df = work / "doc.json"
        df.write_bytes(doc_bytes)
        argv += ["-f", str(df)]
    outp = work / "out.json"
    if outp.exists():
        outp.unlink()
    if o["outfile"]:
        argv += ["-o", str(outp)]
    if o["flag"]:
        argv.append("--no-type-checks" if cmd == "path" else "-u")
    # ---- run in-process
    old = sys.argv, sys.stdin, sys.stdout, sys.stderr
    so, se = io.StringIO(), io.StringIO()
    code: Any = None
    crashed = ""
    try:
        sys.argv, sys.stdin, sys.stdout, sys.stderr = argv, io.StringIO(stdin_text), so, se
        try:
            cli.main()
            code = 0
        except SystemExit as e:
            code = e.code if isinstance(e.code, int) else (0 if e.code is None else 1)
        except BaseException as e:  # noqa: BLE001  - an uncaught exception: the interpreter would print a traceback and exit 1
            crashed = type(e).__name__
            code = 1
            se.write("Traceback (most recent call last):\n" + "".join(tb.format_exception_only(type(e), e)))
    finally:
        sys.argv, sys.stdin, sys.stdout, sys.stderr = old
    import gc

    gc.collect()
    out_text = outp.read_text() if o["outfile"] and outp.exists() else so.getvalue()
    err = se.getvalue()
    has_tb = "Traceback" in err
    disc = ""
    if rec["exit"] == 0 and dcls == "object-overflowing-number" and code == 1 and not has_tb and len([l for l in err.splitlines() if l.strip()]) == 1 and not so.getvalue():
        # a result holding an infinity has no JSON serialisation: a front end that says so in one line and exits with status 1 is as
        # faithful as one that prints the host's `Infinity`; a traceback is neither
        disc = ""
    elif rec["exit"] == 0:
        if code != 0:
            disc = f"exit-{code}-instead-of-0" + (f"-uncaught-{crashed}" if crashed else "")
        else:
            try:
                docobj = json.loads(doc_bytes)
                if isinstance(docobj, str):
                    docobj = io.BytesIO(doc_bytes)      # a string document: handed to the library as the file it is (a str argument would be read as JSON text)
                want = library_result(rec, expr_text, docobj)
                want_text = json.dumps(want, indent=2 if o["pretty"] else None)
                if out_text != want_text:
                    disc = "output-is-not-the-serialisation-of-the-library-result"
                elif err:
                    disc = "stderr-not-empty-on-success"
                elif o["outfile"] and so.getvalue():
                    disc = "stdout-not-empty-when-writing-to-a-file"
            except BaseException as e:  # noqa: BLE001
                disc = f"library-call-raised-{exc_family(e)}-but-cli-succeeded"
    else:
        if code != 1:
            disc = f"exit-{code}-instead-of-1"
        elif has_tb and not o["debug"]:
            disc = f"traceback-without-debug" + (f"-uncaught-{crashed}" if crashed else "")
        elif not has_tb and len([l for l in err.splitlines() if l.strip()]) != 1:
            disc = f"stderr-has-{len(err.splitlines())}-lines"
        elif (so.getvalue() or (o["outfile"] and outp.exists() and outp.read_text())):
            disc = "wrote-output-on-failure"
    if not disc:
        return []
    sig = f"{cmd}|{disc}|expr:{ecls}|doc:{dcls}" + ("|from-file" if not o["inline"] and cmd != "patch" else "")
    return [(sig, {"argv": argv[1:], "stdin": stdin_text[:80], "exit": code, "stdout": out_text[:300], "stderr": err[:600], "spec_exit": rec["exit"], "tagged": rec}, disc)]


def run(chk: Check, tier: str, seed: int) -> None:
    r = tlc("MC_Cli", CFG, timeout=1200)
    chk.add_tlc(r)
    recs = r.records
    for rec, res in zip(recs, core.pmap(replay, recs)):
        chk.traces += 1
        chk.nontrivial.add(json.dumps(rec, sort_keys=True))
        for sig, case, what in res:
            chk.violation(sig, case, what)
    for rec in recs[:2] + recs[7000:7002]:
        chk.sample(rec)
    chk.exhaustive = True
    chk.rule = ("terminal states of MC_Cli.tla: 3 sub-commands x every combination of --debug, --pretty, --no-unicode-escape, expression inline/file, document "
                "stdin/file, output stdout/file, --no-type-checks / --uri-decode x 15/9/13 expression classes (path: incl. union and intersection queries and one written over several lines) x 6 document classes (incl. an undecodable text without brackets), each instantiated with a "
                "concrete input and run through jsonpath.cli.main(); every state is a distinct configuration")
    chk.assumptions += ["main() is run in-process with patched argv/stdio; an exception escaping main() is counted as the traceback + exit status 1 the interpreter would produce",
                        "message wording is not compared, only exit status, stream contents and line counts"]


def replay_file(case: Dict[str, Any]) -> int:
    res = replay(case["case"]["tagged"])
    for sig, c, what in res:
        print("DIVERGENCE", sig, c["argv"], c["stderr"][-300:])
    return 1 if res else 0
