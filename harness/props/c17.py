"""C17 - renaming the environment's identifier tokens never changes what a query means
(spec: Render.tla token styles, JsonPath.tla, MC_Tokens.tla).

TLC enumerates assignments of spellings (1-3 characters, prefix-related pairs, non-ASCII)
to the eight configurable identifiers and programs that use every identifier, renders each
program under the assignment and under the default spellings and exports the expected
result; the harness builds an environment subclass with those token attributes and
compares results, token kinds and the str() round trip inside that environment.
"""
from __future__ import annotations

import json
from typing import Any, Dict, List, Tuple

from .. import core
from ..core import Check, canon, exc_family, show, tag, tlc, untag, untext
from ..pathcommon import _drive

CFG = """CONSTANTS Universe = "{universe}"
INIT Init
NEXT Next
INVARIANT DefaultIsDefault
INVARIANT Export
"""
ATTR = {"root": "root_token", "self": "self_token", "key": "key_token", "ctx": "filter_context_token", "keys": "keys_selector_token",
        "fake": "fake_root_token", "union": "union_token", "inter": "intersection_token"}
_state: Dict[str, Any] = {}
_envs: Dict[str, Any] = {}


def env_for(assign: Dict[str, Any]) -> Any:
    import jsonpath

    key = json.dumps(assign, sort_keys=True)
    if key not in _envs:
        attrs = {ATTR[k]: untext(v) for k, v in assign.items()}
        cls = type("RenamedEnv", (jsonpath.JSONPathEnvironment,), attrs)
        if len(_envs) > 200:
            _envs.clear()
        _envs[key] = cls()
    return _envs[key]


def replay(rec: Dict[str, Any]) -> List[Tuple[str, Dict[str, Any], str]]:
    import jsonpath

    text, dtext = untext(rec["text"]), untext(rec["dtext"])
    changed = sorted(k for k, v in rec["assign"].items() if untext(v) != {"root": "$", "self": "@", "key": "#", "ctx": "_", "keys": "~", "fake": "^", "union": "|", "inter": "&"}[k])
    disc = ""
    extra: Dict[str, Any] = {}
    try:
        env = env_for(rec["assign"])
    except BaseException as e:  # noqa: BLE001
        return [(f"environment-raised-{type(e).__name__}|{'+'.join(changed)}", {"assignment": {k: untext(v) for k, v in rec["assign"].items()}, "tagged": rec}, str(e))]
    try:
        kinds = [t.kind for t in env.lexer.tokenize(text)]
        dkinds = [t.kind for t in jsonpath.DEFAULT_ENV.lexer.tokenize(dtext)]
        if kinds != dkinds:
            disc = "token-kinds-differ-from-default-spelling"
            extra = {"kinds": kinds, "default_kinds": dkinds}
    except BaseException as e:  # noqa: BLE001
        disc = f"tokenize-raised-{exc_family(e)}"
    if not disc:
        try:
            path = env.compile(text)
        except BaseException as e:  # noqa: BLE001
            disc = f"compile-raised-{exc_family(e)}"
            path = None
    if not disc:
        ctx_t = _state["ctx"]
        for d, dt in enumerate(_state["docs"]):
            exp = [canon(v) for v in rec["res"][d]]
            try:
                got = [canon(tag(v)) for v in path.findall(untag(dt["doc"]), filter_context=untag(ctx_t))]
                if got != exp:
                    disc = "different-result-than-default-spelling"
                    break
                # the other entry points evaluate the same program (they have their own copies of the operator dispatch)
                fc = untag(ctx_t)
                routes = {"finditer": lambda: [m.obj for m in path.finditer(untag(dt["doc"]), filter_context=fc)],
                          "env.finditer": lambda: [m.obj for m in env.finditer(text, untag(dt["doc"]), filter_context=fc)],
                          "findall_async": lambda: _drive(path.findall_async(untag(dt["doc"]), filter_context=fc)),
                          "finditer_async": lambda: _drive(_acollect(path, untag(dt["doc"]), fc)),
                          "env.query": lambda: list(env.query(text, untag(dt["doc"]), filter_context=fc).values()),
                          "match": lambda: [m.obj for m in [path.match(untag(dt["doc"]), filter_context=fc)] if m is not None]}
                compound = any(untext(rec["assign"][k]) in text for k in ("union", "inter"))
                for rname, fn in (routes.items() if compound or d == 0 else ()):       # (simple queries: the other entry points on the first document only)
                    g = [canon(tag(v)) for v in fn()]
                    if g != (exp[:1] if rname == "match" else exp):
                        disc = f"{rname}:different-result-than-default-spelling"
                        break
                if disc:
                    break
                t1 = str(path)
                p2 = env.compile(t1)
                if str(p2) != t1:
                    disc = "string-form-not-a-fixed-point"
                    extra = {"string_form": t1, "again": str(p2)}
                    break
                got2 = [canon(tag(v)) for v in p2.findall(untag(dt["doc"]), filter_context=untag(ctx_t))]
                if got2 != exp:
                    disc = "string-form-means-something-else"
                    extra = {"string_form": t1}
                    break
            except BaseException as e:  # noqa: BLE001
                disc = f"raised-{exc_family(e)}"
                try:
                    extra = {"string_form": str(path)}
                except BaseException:  # noqa: BLE001
                    pass
                break
    # (only where the keys spelling cannot be read as a member name: after a dot, a spelling that begins with a name character - any
    #  non-ASCII character is one in RFC 9535 - IS a shorthand name, whatever the environment calls it)
    if not disc and "dot" in rec and untext(rec["assign"]["keys"])[:1].isascii() and not (untext(rec["assign"]["keys"])[:1].isalnum() or untext(rec["assign"]["keys"])[:1] == "_"):
        # the dotted shorthand of the same program (names, wildcard and the keys selector after a dot), in this environment
        dot = untext(rec["dot"])
        try:
            pd = env.compile(dot)
            for d, dt in enumerate(_state["docs"]):
                if [canon(tag(v)) for v in pd.findall(untag(dt["doc"]), filter_context=untag(_state["ctx"]))] != [canon(v) for v in rec["res"][d]]:
                    disc = "dotted-spelling:different-result-than-default-spelling"
                    break
        except BaseException as e:  # noqa: BLE001
            disc = f"dotted-spelling:raised-{exc_family(e)}"
        if disc:
            extra = {"dotted_spelling": dot}
    if not disc:
        return []
    lens = "+".join(f"{k}:{len(untext(rec['assign'][k]))}" for k in changed)
    return [(f"{disc}|{lens}", {"assignment": {k: untext(v) for k, v in rec["assign"].items()}, "query": text, "default_spelling": dtext, **extra, "tagged": rec}, disc)]


async def _acollect(path: Any, doc: Any, fc: Any) -> List[Any]:
    return [m.obj async for m in await path.finditer_async(doc, filter_context=fc)]


LEXCFG = """CONSTANTS Universe = "prefix"
 Order = "{order}"
INIT Init
NEXT Next
INVARIANT KindsStable
"""


def lexer_conformance(rec: Dict[str, Any]) -> List[Tuple[str, Dict[str, Any], str]]:
    """The real lexer must produce the token kinds the lexer model (Lexer.tla) produces."""
    text = untext(rec["text"])
    try:
        env = env_for(rec["assign"])
        kinds = [t.kind for t in env.lexer.tokenize(text)]
    except BaseException as e:  # noqa: BLE001
        kinds = ["raised-" + exc_family(e)]
    def pattern(seq: List[str]) -> List[int]:
        # kinds compared up to a consistent renaming (the names of token kinds are internal to the implementation)
        ids: Dict[str, int] = {}
        return [ids.setdefault(k, len(ids)) for k in seq]

    if pattern(kinds) != pattern(rec["kinds"]):
        return [("lexer-model:token-kinds-differ-from-the-rule-list-model", {"assignment": {k: untext(v) for k, v in rec["assign"].items()}, "query": text,
                 "model_kinds": rec["kinds"], "lexer_kinds": kinds}, "token kinds differ from Lexer.tla")]
    return []


def run(chk: Check, tier: str, seed: int) -> None:
    # the lexer model: kinds independent of the assignment (longest-first), refuted for shortest-first, and equal to the real lexer's
    jobs = [("MC_Lexer", LEXCFG.format(order="longest-first"), dict(timeout=3000, workers=10)),
            ("MC_Lexer", LEXCFG.format(order="shortest-first"), dict(timeout=3000, workers=4, expect_violation=True))]
    lex_ok, lex_bad = core.tlc_parallel(jobs, threads=2)
    if not lex_bad.violation or "KindsStable" not in lex_bad.violation:
        raise core.MachineryError("MC_Lexer with shortest-first ordering did not violate KindsStable (the lexer model has lost its teeth)")
    chk.add_tlc(lex_ok)
    chk.extra["lexer_model_selftest"] = "shortest-first rule order refuted by TLC: " + lex_bad.violation
    lrecs = [x for x in lex_ok.records if "kinds" in x]
    # two identifiers with one spelling (the documentation's example): the rule listed first wins, in the model and in the code
    r2 = tlc("MC_Lexer", LEXCFG.format(order="longest-first").replace('Universe = "prefix"', 'Universe = "collide"').replace("INVARIANT KindsStable\n", "INVARIANT ExportKinds\n"), timeout=600)
    chk.add_tlc(r2)
    lrecs += [x for x in r2.records if "kinds" in x]
    for res in core.pmap(lexer_conformance, lrecs):
        chk.traces += 1
        for sig, case, what in res:
            chk.violation(sig, case, what)
    chk.extra["lexer_model_tokenizations_compared"] = len(lrecs)
    r = tlc("MC_Tokens", CFG.format(universe="pairs"), timeout=3000)
    chk.add_tlc(r)
    recs = []
    for x in r.records:
        if "docs" in x:
            _state["docs"] = x["docs"]
            _state["ctx"] = x["ctx"]
        else:
            recs.append(x)
    rc = tlc("MC_Tokens", CFG.format(universe="collide"), timeout=600)
    chk.add_tlc(rc)
    collide = [x for x in rc.records if "docs" not in x]
    rs = tlc("MC_Tokens", CFG.format(universe="swaps"), timeout=600)
    chk.add_tlc(rs)
    collide += [x for x in rs.records if "docs" not in x]
    recs.sort(key=lambda x: json.dumps(x["assign"], sort_keys=True))
    if tier == "quick":  # every assignment, programs rotated (thorough: every assignment x every program)
        def delicate(x: Dict[str, Any]) -> bool:
            # compound programs under an assignment that respells an operator are always kept
            return untext(x["text"]) != untext(x["dtext"]) and any(untext(x["assign"][k]) != d and untext(x["assign"][k]) in untext(x["text"]) for k, d in (("union", "|"), ("inter", "&")))

        recs = [x for i, x in enumerate(recs) if i % 3 == 0 or delicate(x)]
    recs += collide
    for rec, res in zip(recs, core.pmap(replay, recs)):
        chk.traces += 1
        chk.nontrivial.add((json.dumps(rec["assign"], sort_keys=True), untext(rec["dtext"])))
        for sig, case, what in res:
            chk.violation(sig, case, what)
    for rec in recs[100:103] + recs[-2:]:
        chk.sample({"assignment": {k: untext(v) for k, v in rec["assign"].items()}, "query": untext(rec["text"]), "default_spelling": untext(rec["dtext"])})
    chk.exhaustive = tier != "quick"
    chk.rule = ("MC_Tokens.tla: every ordered pair of the 8 identifiers x every ordered pair of spellings from a pool of 14 (1-3 characters, prefix-related pairs "
                "% %% %%%, non-ASCII), the other six at default, x 12 programs using every identifier (quick: programs rotated over the assignments); compared: token "
                "kinds, results on 2 documents with a filter context, str() round trip in that environment; distinct by (assignment, program)")
    chk.assumptions += ["non-overlapping = no spelling shares a character with the fixed grammar's lexemes (the pool is chosen accordingly)"]


def replay_file(case: Dict[str, Any]) -> int:
    r = tlc("MC_Tokens", CFG.format(universe="none"))
    x = [y for y in r.records if "docs" in y][0]
    _state["docs"], _state["ctx"] = x["docs"], x["ctx"]
    res = replay(case["case"]["tagged"])
    for sig, c, what in res:
        print("DIVERGENCE", sig, c["assignment"], c["query"])
    return 1 if res else 0
