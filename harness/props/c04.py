"""C04 - JSON Pointer resolution conforms to RFC 6901 (spec: Pointer.tla, MC_Pointer.tla).

TLC explores the descent machine over documents x (existing pointers + one-token
mutations), checking reachability / failure invariants in the specification, and
exports each behaviour; the harness resolves the same pointer text through every
entry point of jsonpath.pointer and compares outcome (identity of the node, or a
resolution error) with the specification's terminal state, token by token.
"""
from __future__ import annotations

import json
from typing import Any, Dict, List, Tuple

from .. import core
from ..core import Check, canon, exc_family, show, tag, tlc, untag, untext

CFG = """CONSTANTS Universe = "{universe}"
INIT Init
NEXT Next
INVARIANT StepwiseOK
INVARIANT Reachable
INVARIANT MutationsFail
INVARIANT ExistingSucceed
INVARIANT Export
"""


def walk(doc: Any, loc: List[Dict[str, Any]]) -> Any:
    cur = doc
    for st in loc:
        cur = cur[untext(st["s"])] if st["k"] == "key" else cur[st["i"]]
    return cur


def tok_kind(t: str) -> str:
    if t == "":
        return "empty"
    if t == "-":
        return "dash"
    if t.isascii() and t.isdigit():
        return "canonical-int" if (t == "0" or t[0] != "0") else "leading-zero"
    try:
        int(t)
        if not t.isascii():
            return "unicode-digits"
        if t[0] in "+":
            return "plus-int"
        if t != t.strip():
            return "blank-padded-int"
        if "_" in t:
            return "underscore-int"
        if t[0] == "-":
            return "negative-int"
        return "int-like"
    except ValueError:
        pass
    return "non-ascii" if not t.isascii() else "name"


def first_bad(doc: Any, toks: List[str], obs_ok_prefix: int) -> str:
    """Classify the token at which spec and code part ways (for signatures)."""
    cur = doc
    for i, t in enumerate(toks):
        kind = "obj" if isinstance(cur, dict) else "arr" if isinstance(cur, list) else "str" if isinstance(cur, str) else "scalar"
        nxt = None
        if isinstance(cur, dict) and t in cur:
            nxt = cur[t]
        elif isinstance(cur, list) and tok_kind(t) == "canonical-int" and int(t) < len(cur):
            nxt = cur[int(t)]
        else:
            return f"{kind}:{tok_kind(t)}"
        if i >= obs_ok_prefix:
            return f"{kind}:{tok_kind(t)}"
        cur = nxt
    return "end"


SENTINEL = object()


def observe(rec: Dict[str, Any], ue: bool) -> List[Tuple[str, str]]:
    """Return [(entry, discrepancy)] for every entry point that departs from the spec."""
    import jsonpath
    from jsonpath import JSONPointer
    from jsonpath.exceptions import JSONPointerResolutionError
    from jsonpath.pointer import UNDEFINED

    out: List[Tuple[str, str]] = []
    doc = untag(rec["doc"])
    txt = untext(rec["text"])
    exp_ok = rec["out"]["ok"]
    node = walk(doc, rec["loc"]) if exp_ok else None

    def judge(entry: str, fn: Any, default: bool = False) -> None:
        try:
            v = fn()
        except JSONPointerResolutionError:
            if exp_ok:
                out.append((entry, "raised-resolution-error"))
            return
        except BaseException as e:  # noqa: BLE001
            out.append((entry, "raised-" + exc_family(e) + ":" + type(e).__name__))
            return
        if default and v is SENTINEL:
            if exp_ok:
                out.append((entry, "returned-default"))
            return
        if not exp_ok:
            out.append((entry, "yielded-a-value"))
        elif v is not node:
            out.append((entry, "wrong-node" if v != node else "equal-copy-not-same-object"))

    judge("pointer.resolve", lambda: jsonpath.pointer.resolve(txt, doc, unicode_escape=ue))
    try:
        p = JSONPointer(txt, unicode_escape=ue)
    except BaseException as e:  # noqa: BLE001
        out.append(("JSONPointer()", "raised-" + exc_family(e) + ":" + type(e).__name__))
        return out
    judge("JSONPointer.resolve", lambda: p.resolve(doc))
    judge("resolve(default)", lambda: p.resolve(doc, default=SENTINEL), default=True)
    if exp_ok is not None:
        # the document given as JSON text, resolved, the result edited by the caller, resolved again: the text still means the same document
        try:
            text_doc = json.dumps(doc)
            first = jsonpath.pointer.resolve(txt, text_doc, default=SENTINEL, unicode_escape=ue)
            if isinstance(first, list):
                first.append("edited-by-caller")
            elif isinstance(first, dict):
                first["edited-by-caller"] = True
            again = jsonpath.pointer.resolve(txt, text_doc, default=SENTINEL, unicode_escape=ue)
            if exp_ok and (again is SENTINEL or canon(tag(again)) != canon(tag(node))):
                out.append(("pointer.resolve(json-text, again)", "stale-or-wrong-node"))
            elif not exp_ok and again is not SENTINEL:
                out.append(("pointer.resolve(json-text, again)", "yielded-a-value"))
        except BaseException as e:  # noqa: BLE001
            out.append(("pointer.resolve(json-text)", "raised-" + exc_family(e) + ":" + type(e).__name__))
    if "toks" in rec:
        # the same pointer given as its reference tokens (strings): built from parts, and handed to the module-level resolve
        toks = [untext(t) for t in rec["toks"]]
        judge("from_parts.resolve", lambda: JSONPointer.from_parts(toks, unicode_escape=ue).resolve(doc))
        judge("pointer.resolve(parts)", lambda: jsonpath.pointer.resolve(toks, doc, unicode_escape=ue))
        judge("from_parts.resolve(default)", lambda: JSONPointer.from_parts(toks, unicode_escape=ue).resolve(doc, default=SENTINEL), default=True)
    judge("pointer.resolve(default)", lambda: jsonpath.pointer.resolve(txt, doc, default=SENTINEL, unicode_escape=ue), default=True)
    try:
        ex = p.exists(doc)
        if ex != exp_ok:
            out.append(("exists", f"exists={ex}"))
    except BaseException as e:  # noqa: BLE001
        out.append(("exists", "raised-" + type(e).__name__))
    # resolve_parent: (parent, node) / (parent, UNDEFINED) when only the last token is missing
    try:
        parent, obj = p.resolve_parent(doc)
        if exp_ok:
            if obj is not node:
                out.append(("resolve_parent", "wrong-node"))
            elif rec["loc"] and parent is not walk(doc, rec["loc"][:-1]):
                out.append(("resolve_parent", "wrong-parent"))
        elif obj is not UNDEFINED:
            out.append(("resolve_parent", "yielded-a-value"))
    except JSONPointerResolutionError:
        if exp_ok:
            out.append(("resolve_parent", "raised-resolution-error"))
    except BaseException as e:  # noqa: BLE001
        out.append(("resolve_parent", "raised-" + exc_family(e) + ":" + type(e).__name__))
    # token-by-token descent, observed by resolving every prefix
    for st in rec["steps"]:
        try:
            ok = JSONPointer(untext(st["prefix"]), unicode_escape=ue).exists(doc)
        except BaseException as e:  # noqa: BLE001
            out.append(("prefix", "raised-" + type(e).__name__))
            break
        if ok != st["ok"]:
            out.append(("prefix", f"prefix-exists={ok}"))
            break
    return out


def replay(rec: Dict[str, Any]) -> List[Tuple[str, Dict[str, Any], str]]:
    res = []
    txt = untext(rec["text"])
    toks = [untext(t) for t in rec["toks"]]
    if "\\" in txt:
        # history: the same text built first with escape decoding on (outcome not judged here, C03's business);
        # what the text means with decoding off must not depend on that having happened
        try:
            from jsonpath import JSONPointer

            JSONPointer(txt).exists(untag(rec["doc"]))
        except Exception:  # noqa: BLE001
            pass
    for ue in ((True, False) if "\\" not in txt else (False,)):
        obs = observe(rec, ue)
        if obs:
            doc = untag(rec["doc"])
            nok = sum(1 for s in rec["steps"] if s["ok"])
            feat = first_bad(doc, toks, nok if not rec["out"]["ok"] else len(toks))
            if rec["out"]["ok"]:
                # the token the code stumbled on: find it by probing prefixes
                feat = "existing:" + "|".join(sorted({tok_kind(t) for t in toks if tok_kind(t) not in ("name", "canonical-int")})) or "existing"
            entry, disc = obs[0]
            sig = f"{entry}|{feat}|unicode_escape={ue}|expected={'node' if rec['out']['ok'] else 'error:' + rec['out']['kind']}|{disc}"
            res.append((sig, {"doc": show(rec["doc"]), "pointer": txt, "unicode_escape": ue, "all": obs, "tagged": rec}, f"{entry}: {disc}"))
            break
    return res


def run(chk: Check, tier: str, seed: int) -> None:
    recs: List[Dict[str, Any]] = []
    for uni in ("names", "small", "backslash"):
        r = tlc("MC_Pointer", CFG.format(universe=uni), timeout=1200)
        chk.add_tlc(r)
        recs += r.records
        chk.extra[f"pointers_{uni}"] = len(r.records)
    for rec, res in zip(recs, core.pmap(replay, recs)):
        chk.traces += 1
        if rec["toks"]:
            chk.nontrivial.add((json.dumps(rec["doc"], sort_keys=True), untext(rec["text"])))
        for sig, case, what in res:
            chk.violation(sig, case, what)
    for rec in recs[:3] + recs[-2:]:
        chk.sample({"doc": show(rec["doc"]), "pointer": untext(rec["text"]), "spec_outcome": rec["out"]["ok"] or rec["out"]["kind"]})
    chk.exhaustive = True
    for res in core.pmap(scalar_text_documents, [0]):
        for sig, case, what in res:
            chk.violation(sig, case, what)
    chk.rule = ("terminal states of MC_Pointer.tla: documents x (pointer of every node + every one-token mutation from MutTokens: wrong key, "
                "look-alikes '+1',' 1','1_0','01',full-width/arabic digits,'1.0', index = len / len+1, '-', tokens under scalars and strings); "
                "each resolved through pointer.resolve, JSONPointer.resolve, default=, exists, resolve_parent and every prefix, with "
                "unicode_escape on and off (off only when the text has a backslash); non-trivial = pointer has >= 1 token; distinct by (document, text)")
    chk.assumptions += ["negative indices, '#'/'~'-prefixed tokens, leading blanks and integers beyond the index limit are documented extensions, outside the universe",
                        "object identity of the resolved node is observed with `is` by the harness"]


def scalar_text_documents(_n: int) -> List[Tuple[str, Dict[str, Any], str]]:
    """A document whose root is a scalar, given as JSON text: the root pointer resolves to the parsed value, any
    other pointer fails (the specification's documents are handed over parsed; these few are the text form)."""
    import jsonpath
    from jsonpath import JSONPointer
    from jsonpath.exceptions import JSONPointerResolutionError

    out = []
    for text in ("42", "true", "null", '"abc"', "1.5", "-0", " 7 ", '"[not, an, array"'):
        want = json.loads(text)
        for name, fn in (("pointer.resolve", lambda: jsonpath.pointer.resolve("", text)), ("JSONPointer.resolve", lambda: JSONPointer("").resolve(text))):
            try:
                got = fn()
                if type(got) is not type(want) or got != want:
                    out.append((f"{name}|scalar-json-text|root-pointer-yields-something-else", {"document_text": text, "got": repr(got)}, "root of a scalar text document"))
            except BaseException as e:  # noqa: BLE001
                out.append((f"{name}|scalar-json-text|raised-{exc_family(e)}", {"document_text": text}, type(e).__name__))
        try:
            v = JSONPointer("/0").resolve(text)
            out.append(("JSONPointer.resolve|scalar-json-text|token-below-a-scalar-yielded-a-value", {"document_text": text, "got": repr(v)}, "below a scalar"))
        except JSONPointerResolutionError:
            pass
        except BaseException as e:  # noqa: BLE001
            out.append((f"JSONPointer.resolve|scalar-json-text|raised-{exc_family(e)}", {"document_text": text}, type(e).__name__))
    return out


def replay_file(case: Dict[str, Any]) -> int:
    res = replay(case["case"]["tagged"])
    for sig, c, what in res:
        print("DIVERGENCE", sig, what, c["all"])
    return 1 if res else 0
