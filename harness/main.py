"""./check <id> [--tier quick|thorough] [--replay file]"""
from __future__ import annotations

import argparse
import importlib
import json
import os
import sys
import traceback

from . import core


def main() -> int:
    ap = argparse.ArgumentParser()
    ap.add_argument("prop")
    ap.add_argument("--tier", default=os.environ.get("VERIF_TIER", "quick"), choices=["quick", "thorough"])
    ap.add_argument("--replay")
    args = ap.parse_args()
    seed = int(os.environ.get("VERIF_SEED", "0") or 0)
    prop = args.prop.upper()
    try:
        mod = importlib.import_module(f"harness.props.{prop.lower()}")
    except ImportError:
        traceback.print_exc()
        return 2
    if args.replay:
        case = json.load(open(args.replay))
        return mod.replay_file(case)
    chk = core.Check(prop, args.tier, seed, level=getattr(mod, "LEVEL", "model_checking"))
    try:
        mod.run(chk, args.tier, seed)
    except core.MachineryError as e:
        print(f"MACHINERY-ERROR {prop}: {e}", file=sys.stderr)
        return 2
    except Exception:
        traceback.print_exc()
        return 2
    return chk.finish()


if __name__ == "__main__":
    sys.exit(main())
