"""Common machinery: TLC runner, codec, evidence, known findings, verdicts.

Every check imports the code under test from $VERIF_REPO (default /repo), placed
first on sys.path, with the hook guard PYJSONPATH_VERIF=1 set before import.
"""
from __future__ import annotations

import atexit
import json
import os
import re
import shutil
import subprocess
import sys
import tempfile
import time
from pathlib import Path
from typing import Any, Callable, Dict, Iterable, Iterator, List, Optional, Sequence, Tuple

VERIF = Path(__file__).resolve().parent.parent
SPEC = VERIF / "spec"
# (the seeded-change matrix redirects outputs so that runs against modified copies never touch the committed evidence)
EVIDENCE = Path(os.environ.get("VERIF_OUT_DIR", str(VERIF))) / "evidence"
REPLAY = Path(os.environ.get("VERIF_OUT_DIR", str(VERIF))) / "replay"
REPO = Path(os.environ.get("VERIF_REPO", "/repo"))
GUARD = "PYJSONPATH_VERIF"

os.environ.setdefault("PYTHONHASHSEED", "0")
os.environ[GUARD] = "1"
if str(REPO) not in sys.path:
    sys.path.insert(0, str(REPO))

NCPU = min(16, os.cpu_count() or 4)

_scratch: Optional[Path] = None


def scratch() -> Path:
    """A per-process scratch directory removed at exit."""
    global _scratch
    if _scratch is None:
        _scratch = Path(tempfile.mkdtemp(prefix="verif-"))
        atexit.register(lambda: shutil.rmtree(str(_scratch), ignore_errors=True))
    return _scratch


class MachineryError(Exception):
    """The verification machinery itself failed (exit 2), not the code under test."""


# --------------------------------------------------------------------------- TLC


class TlcResult:
    def __init__(self) -> None:
        self.generated = 0
        self.distinct = 0
        self.records: List[Any] = []
        self.rc = 0
        self.wall = 0.0
        self.log = ""
        self.violation: Optional[str] = None  # invariant / property violated in the spec itself
        self.coverage: Dict[str, int] = {}


_RE_STATES = re.compile(r"^(\d+) states generated, (\d+) distinct states found", re.M)
_RE_SIM = re.compile(r"The number of states generated: (\d+)")
_RE_COV = re.compile(r"^<(\w+) line \d+, col \d+ to line \d+, col \d+ of module \w+>: (\d+):(\d+)", re.M)


_tlc_counter = 0
_tlc_lock = __import__("threading").Lock()


def tlc_parallel(jobs: Sequence[Tuple[str, str, Dict[str, Any]]], threads: int = 8) -> List["TlcResult"]:
    """Run several TLC invocations concurrently (each its own JVM); results in job order."""
    from concurrent.futures import ThreadPoolExecutor

    with ThreadPoolExecutor(max_workers=threads) as ex:
        futs = [ex.submit(tlc, m, c, **kw) for m, c, kw in jobs]
        return [f.result() for f in futs]


def _die_with_parent() -> None:
    """Child-side: have the kernel kill the JVM if the harness process goes away (e.g. is killed for memory)."""
    try:
        import ctypes

        ctypes.CDLL("libc.so.6", use_errno=True).prctl(1, 9)  # PR_SET_PDEATHSIG, SIGKILL
    except Exception:  # noqa: BLE001
        pass


def tlc(
    module: str,
    cfg: str,
    *,
    workers: int = NCPU,
    simulate: Optional[Tuple[int, int]] = None,  # (num, depth)
    seed: int = 0,
    env: Optional[Dict[str, str]] = None,
    timeout: int = 900,
    on_record: Optional[Callable[[Any], None]] = None,
    coverage: bool = False,
    heap: str = "8g",
    expect_violation: bool = False,
    deadlock: bool = False,
) -> TlcResult:
    """Run TLC on spec/<module>.tla with the given cfg *text*.

    Lines that TLC prints through PrintT(ToJson(..)) are decoded and either passed
    to on_record or collected in result.records.
    """
    sc = scratch()
    global _tlc_counter
    with _tlc_lock:
        _tlc_counter += 1
        tag = f"{module}-{os.getpid()}-{_tlc_counter}"
    cfg_path = sc / f"{tag}.cfg"
    cfg_path.write_text(cfg)
    meta = sc / f"meta-{tag}"
    out_path = sc / f"{tag}.out"
    cmd = [
        "java",
        "-XX:+UseParallelGC",
        f"-Xmx{heap}",
        "-cp",
        "/opt/veriftools/tla/tla2tools.jar:/opt/veriftools/tla/CommunityModules-deps.jar",
        "tlc2.TLC",
        "-workers",
        str(workers),
        "-metadir",
        str(meta),
        "-noGenerateSpecTE",
        "-maxSetSize",
        "20000000",
        "-config",
        str(cfg_path),
    ]
    if not deadlock:
        cmd += ["-deadlock"]
    if coverage:
        cmd += ["-coverage", "1"]
    if simulate is not None:
        num, depth = simulate
        cmd += ["-simulate", f"num={num}", "-depth", str(depth), "-seed", str(seed)]
    cmd.append(str(SPEC / f"{module}.tla"))
    e = dict(os.environ)
    if env:
        e.update(env)
    t0 = time.time()
    res = TlcResult()
    with open(out_path, "wb") as out:
        try:
            p = subprocess.run(cmd, stdout=out, stderr=subprocess.STDOUT, env=e, timeout=timeout, cwd=str(SPEC), preexec_fn=_die_with_parent)
            res.rc = p.returncode
        except subprocess.TimeoutExpired:
            raise MachineryError(f"TLC timed out after {timeout}s on {module}")
    res.wall = time.time() - t0
    other: List[str] = []
    with open(out_path, "r", encoding="utf-8", errors="replace") as f:
        for line in f:
            if line.startswith('"{') or line.startswith('"['):
                try:
                    rec = json.loads(json.loads(line))
                except Exception as ex:  # pragma: no cover
                    raise MachineryError(f"cannot decode TLC record: {line[:200]!r}: {ex}")
                if on_record:
                    on_record(rec)
                else:
                    res.records.append(rec)
            else:
                if len(other) < 4000:
                    other.append(line)
    res.log = "".join(other)
    m = None
    for m in _RE_STATES.finditer(res.log):
        pass
    if m:
        res.generated, res.distinct = int(m.group(1)), int(m.group(2))
    else:
        m2 = None
        for m2 in _RE_SIM.finditer(res.log):
            pass
        if m2:
            res.generated = int(m2.group(1))
            res.distinct = res.generated
    for mm in _RE_COV.finditer(res.log):
        res.coverage[mm.group(1)] = res.coverage.get(mm.group(1), 0) + int(mm.group(2))
    shutil.rmtree(str(meta), ignore_errors=True)
    try:
        out_path.unlink()
    except OSError:
        pass
    mv = re.search(r"^Error: (Invariant (\w+) is violated|Action property (\w+) is violated|Temporal properties were violated|Deadlock reached)", res.log, re.M)
    if mv:
        res.violation = mv.group(1)
    if res.violation and not expect_violation:
        raise MachineryError(f"the specification {module} violates its own property: {res.violation}\n{res.log[-3000:]}")
    if not res.violation and res.rc != 0:
        raise MachineryError(f"TLC failed on {module} (rc={res.rc}):\n{res.log[-4000:]}")
    if not res.violation and "Model checking completed" not in res.log and simulate is None and res.generated == 0:
        raise MachineryError(f"TLC did not complete on {module}:\n{res.log[-3000:]}")
    return res


# --------------------------------------------------------------------------- codec


def text(s: str) -> List[int]:
    return [ord(c) for c in s]


def untext(cps: Sequence[int]) -> str:
    return "".join(chr(c) for c in cps)


def tag(v: Any, _depth: int = 0) -> Dict[str, Any]:
    """Python JSON-like value -> tagged form shared with the specification."""
    if _depth > 60:
        return {"t": "foreign", "py": "cyclic-or-too-deep"}
    if v is None:
        return {"t": "null"}
    if v is True or v is False:
        return {"t": "bool", "b": v}
    if isinstance(v, int):
        if abs(v) >= 2**29:
            return {"t": "foreign", "py": "bigint"}
        return {"t": "num", "h": 2 * v}
    if isinstance(v, float):
        h = v * 2
        if h != int(h) or abs(h) >= 2**30:
            return {"t": "foreign", "py": "float"}
        return {"t": "num", "h": int(h)}
    if isinstance(v, str):
        return {"t": "str", "s": text(v)}
    if isinstance(v, (list, tuple)):
        return {"t": "arr", "xs": [tag(x, _depth + 1) for x in v]}
    if isinstance(v, dict):
        ks, vs = [], []
        for k, x in v.items():
            if not isinstance(k, str):
                return {"t": "foreign", "py": "key:" + type(k).__name__}
            ks.append(text(k))
            vs.append(tag(x, _depth + 1))
        return {"t": "obj", "ks": ks, "vs": vs}
    return {"t": "foreign", "py": type(v).__name__}


def untag(t: Dict[str, Any], *, floats: bool = False) -> Any:
    """Tagged form -> a freshly built Python value (no sharing)."""
    k = t["t"]
    if k == "null":
        return None
    if k == "bool":
        return bool(t["b"])
    if k == "num":
        h = t["h"]
        if h % 2 == 0 and not floats:
            return h // 2
        return h / 2
    if k == "str":
        return untext(t["s"])
    if k == "arr":
        return [untag(x, floats=floats) for x in t["xs"]]
    if k == "obj":
        return {untext(kk): untag(x, floats=floats) for kk, x in zip(t["ks"], t["vs"])}
    raise ValueError(f"cannot untag {t!r}")


def canon(t: Dict[str, Any]) -> Any:
    """Canonical hashable form of a tagged value for comparison *as JSON values*
    (object member order ignored, booleans never equal to numbers)."""
    k = t["t"]
    if k == "arr":
        return ("arr", tuple(canon(x) for x in t["xs"]))
    if k == "obj":
        return ("obj", tuple(sorted((tuple(kk), canon(x)) for kk, x in zip(t["ks"], t["vs"]))))
    if k == "str":
        return ("str", tuple(t["s"]))
    if k == "num":
        return ("num", t["h"])
    if k == "bool":
        return ("bool", bool(t["b"]))
    if k == "null":
        return ("null",)
    return (k, json.dumps(t, sort_keys=True))


def canon_ordered(t: Dict[str, Any]) -> Any:
    """Like canon but object member order is significant."""
    k = t["t"]
    if k == "arr":
        return ("arr", tuple(canon_ordered(x) for x in t["xs"]))
    if k == "obj":
        return ("obj", tuple((tuple(kk), canon_ordered(x)) for kk, x in zip(t["ks"], t["vs"])))
    return canon(t)


def show(t: Any) -> Any:
    """Tagged value -> readable JSON-ish (for samples and messages)."""
    if isinstance(t, dict) and "t" in t:
        try:
            return untag(t)
        except Exception:
            return t
    return t


def loc_to_parts(loc: Sequence[Dict[str, Any]]) -> Tuple[Any, ...]:
    return tuple(untext(s["s"]) if s["k"] == "key" else s["i"] for s in loc)


def parts_to_loc(parts: Sequence[Any]) -> List[Dict[str, Any]]:
    out = []
    for p in parts:
        if isinstance(p, bool) or not isinstance(p, (int, str)):
            out.append({"k": "foreign", "s": text(repr(p)), "i": 0})
        elif isinstance(p, int):
            out.append({"k": "idx", "s": [], "i": p})
        else:
            out.append({"k": "key", "s": text(p), "i": 0})
    return out


# --------------------------------------------------------------------------- TLA+ literal rendering


def tla(v: Any) -> str:
    """Render a Python structure (dict/list/int/bool/str) as a TLA+ expression."""
    if isinstance(v, bool):
        return "TRUE" if v else "FALSE"
    if isinstance(v, int):
        return str(v)
    if isinstance(v, str):
        return json.dumps(v)
    if isinstance(v, (list, tuple)):
        return "<<" + ", ".join(tla(x) for x in v) + ">>"
    if isinstance(v, dict):
        return "[" + ", ".join(f"{k} |-> {tla(x)}" for k, x in v.items()) + "]"
    raise ValueError(v)


# --------------------------------------------------------------------------- known findings


class Findings:
    def __init__(self) -> None:
        p = VERIF / "known_findings.json"
        data = json.loads(p.read_text()) if p.exists() else {"findings": [], "fixed": []}
        self.known = {(f["property"], f["signature"]): f for f in data.get("findings", [])}
        self.seen_known: Dict[Tuple[str, str], int] = {}

    def is_known(self, prop: str, sig: str) -> bool:
        if (prop, sig) in self.known:
            self.seen_known[(prop, sig)] = self.seen_known.get((prop, sig), 0) + 1
            return True
        return False


# --------------------------------------------------------------------------- check result


class Check:
    """Accumulates what one run of one property's check covered and found."""

    def __init__(self, prop: str, tier: str, seed: int, level: str = "model_checking") -> None:
        self.prop = prop
        self.tier = tier
        self.seed = seed
        self.level = level
        self.t0 = time.time()
        self.states = 0
        self.transitions = 0
        self.traces = 0
        self.evaluations = 0
        self.nontrivial: set = set()
        self.samples: List[Any] = []
        self.violations: List[Dict[str, Any]] = []
        self.known_hits: Dict[str, int] = {}
        self.findings = Findings()
        self.rule = ""
        self.extra: Dict[str, Any] = {}
        self.assumptions: List[str] = []
        self.exhaustive = False
        self.viol_sigs: Dict[str, int] = {}

    def add_tlc(self, r: TlcResult) -> None:
        self.states += r.distinct
        self.transitions += r.generated

    def sample(self, s: Any, limit: int = 6) -> None:
        if len(self.samples) < limit:
            self.samples.append(s)

    def violation(self, sig: str, case: Dict[str, Any], what: str) -> None:
        """Report a divergence between code and specification."""
        if self.findings.is_known(self.prop, sig):
            self.known_hits[sig] = self.known_hits.get(sig, 0) + 1
            return
        self.viol_sigs[sig] = self.viol_sigs.get(sig, 0) + 1
        if self.viol_sigs[sig] <= 3 and len(self.violations) < 60:
            self.violations.append({"signature": sig, "what": what, "case": case})

    def finish(self) -> int:
        wall = time.time() - self.t0
        REPLAY.mkdir(parents=True, exist_ok=True)
        EVIDENCE.mkdir(parents=True, exist_ok=True)
        for old in REPLAY.glob(f"{self.prop}-{self.tier}-*.json"):
            old.unlink()
        for sig, n in sorted(self.known_hits.items()):
            f = self.findings.known[(self.prop, sig)]
            print(f"KNOWN-FINDING: property={self.prop} {sig}: {f.get('what', '')} ({n} cases)")
        rc = 0
        for i, v in enumerate(self.violations):
            path = REPLAY / f"{self.prop}-{self.tier}-{i}.json"
            path.write_text(json.dumps({"property": self.prop, **v}, indent=1, ensure_ascii=True))
            print(f"VIOLATION property={self.prop} replay={path}  # {v['signature']}: {v['what']}")
            rc = 1
        if self.viol_sigs:
            print(f"# {self.prop}: {sum(self.viol_sigs.values())} divergent cases in {len(self.viol_sigs)} signature clusters:")
            for sig, n in sorted(self.viol_sigs.items(), key=lambda x: -x[1])[:40]:
                print(f"#   {n:7d}  {sig}")
        cov: Dict[str, Any] = {
            "states": max(self.states, 1) if self.level == "model_checking" else self.states,
            "transitions": max(self.transitions, 1) if self.level == "model_checking" else self.transitions,
            "traces_validated_against_impl": self.traces,
            "evaluations": max(self.evaluations, self.traces, 1),
            "distinct_nontrivial": len(self.nontrivial),
            "rule": self.rule,
            "samples": self.samples or ["(none)"],
            "exhaustive": self.exhaustive,
        }
        cov.update(self.extra)
        ev = {
            "property_id": self.prop,
            "tier": self.tier,
            "seed": self.seed,
            "level": self.level,
            "coverage": cov,
            "assumptions": self.assumptions,
            "wall_s": round(wall, 2),
            "violations": sum(self.viol_sigs.values()),
        }
        (EVIDENCE / f"{self.prop}.json").write_text(json.dumps(ev, indent=1, ensure_ascii=True, default=str))
        print(
            f"{self.prop} {self.tier}: states={self.states} transitions={self.transitions} "
            f"validated={self.traces} nontrivial={len(self.nontrivial)} known={sum(self.known_hits.values())} "
            f"violations={sum(self.viol_sigs.values())} wall={wall:.1f}s"
        )
        return rc


# --------------------------------------------------------------------------- parallel map


class _ItemTimeout(BaseException):
    pass


def _alarm(*_a: Any) -> None:
    raise _ItemTimeout()


def _abnormal(kind: str, item: Any) -> Any:
    """Result standing in for a replay that hung or killed its interpreter (replay functions
    return a list of (signature, case, what))."""
    return [(kind, {"tagged": item if not isinstance(item, tuple) else item[0]}, kind)]


def pmap(fn: Callable[[Any], Any], items: Sequence[Any], *, chunk: int = 500, procs: int = NCPU,
         item_timeout: int = 30) -> Iterator[Any]:
    """Order-preserving parallel map over forked workers that survives the code under test
    hanging (per-item alarm) or killing the interpreter (the worker is restarted after the
    item it died on); both are reported as abnormal results, never as machinery failures."""
    import pickle
    import selectors
    import signal
    import struct

    n = len(items)
    if n == 0:
        return
    results: List[Any] = [None] * n
    nshards = 1 if n < 400 else min(procs, max(1, n // 200))
    # strided shards: neighbouring items (which tend to be similar, and similarly slow) go to different workers
    shards = [list(range(k, n, nshards)) for k in range(nshards)]

    def spawn(idx: List[int]) -> Tuple[int, int]:
        r, w = os.pipe()
        pid = os.fork()
        if pid == 0:
            try:
                os.close(r)
                signal.signal(signal.SIGALRM, _alarm)
                out = os.fdopen(w, "wb")
                for i in idx:
                    out.write(struct.pack("<cI", b"S", i))
                    out.flush()
                    signal.alarm(item_timeout)
                    try:
                        res = ("ok", fn(items[i]))
                    except _ItemTimeout:
                        res = ("timeout", None)
                    except RecursionError:
                        res = ("recursion", None)
                    except BaseException as e:  # noqa: BLE001
                        import traceback

                        res = ("error", traceback.format_exc())
                    finally:
                        signal.alarm(0)
                    blob = pickle.dumps(res)
                    out.write(struct.pack("<cI", b"R", len(blob)))
                    out.write(blob)
                out.write(struct.pack("<cI", b"E", 0))
                out.flush()
            finally:
                os._exit(0)
        os.close(w)
        return pid, r

    sel = selectors.DefaultSelector()
    state: Dict[int, Dict[str, Any]] = {}

    def start(idx: List[int]) -> None:
        pid, fd = spawn(idx)
        f = os.fdopen(fd, "rb")
        state[fd] = {"pid": pid, "f": f, "cur": None, "idx": idx, "done": False, "since": None}
        sel.register(f, selectors.EVENT_READ, fd)

    for idx in shards:
        if idx:
            start(idx)

    def read_exact(f: Any, k: int) -> bytes:
        buf = b""
        while len(buf) < k:
            part = f.read(k - len(buf))
            if not part:
                return buf
            buf += part
        return buf

    failure: Optional[str] = None
    while state:
        ready = sel.select(timeout=2.0)
        if not ready:
            # hard watchdog: an item that ignores the in-worker alarm (a C-level loop) gets its worker killed
            now = time.time()
            for st in list(state.values()):
                if st["since"] is not None and now - st["since"] > item_timeout + 10:
                    try:
                        os.kill(st["pid"], signal.SIGKILL)
                    except ProcessLookupError:
                        pass
                    st["hung"] = True
            continue
        for key, _ in ready:
            fd = key.data
            st = state[fd]
            f = st["f"]
            hdr = read_exact(f, 5)
            if len(hdr) < 5:
                # worker died (or finished): restart after the item it was on
                sel.unregister(f)
                f.close()
                os.waitpid(st["pid"], 0)
                del state[fd]
                if not st["done"]:
                    cur = st["cur"]
                    if cur is None:
                        failure = "a worker died before starting an item"
                    else:
                        if results[cur] is None:
                            results[cur] = ("timeout" if st.get("hung") else "crash", None)
                        rest = st["idx"][st["idx"].index(cur) + 1:]
                        if rest:
                            start(rest)
                continue
            tagc, val = struct.unpack("<cI", hdr)
            if tagc == b"S":
                st["cur"] = val
                st["since"] = time.time()
            elif tagc == b"R":
                blob = read_exact(f, val)
                results[st["cur"]] = pickle.loads(blob)
                st["since"] = None
            elif tagc == b"E":
                st["done"] = True
    if failure:
        raise MachineryError(failure)
    for i, r in enumerate(results):
        if r is None:
            raise MachineryError(f"no result for item {i}")
        kind, val = r
        if kind == "ok":
            yield val
        elif kind == "error":
            # an exception that escaped a replay function: on an unchanged tree this would be a harness
            # bug, on a changed tree it is almost always the library misbehaving at a call the replay did
            # not expect to fail; report it against the case rather than aborting the whole run
            last = [ln for ln in str(val).strip().splitlines() if ln.strip()][-1][:160]
            it = items[i] if not isinstance(items[i], tuple) else items[i][0]
            yield [("replay-could-not-complete:" + last.split(":")[0], {"tagged": it, "traceback": str(val)[-1500:]}, last)]
        else:
            yield _abnormal({"timeout": "call-did-not-terminate", "crash": "interpreter-crashed",
                             "recursion": "unbounded-recursion"}[kind], items[i])


def exc_family(e: BaseException) -> str:
    """Classify an exception raised by the library into the documented families."""
    import jsonpath.exceptions as X

    if isinstance(e, X.JSONPatchTestFailure):
        return "patch-test"
    if isinstance(e, X.JSONPatchError):
        return "patch"
    if isinstance(e, (X.RelativeJSONPointerError,)):
        return "relptr"
    if isinstance(e, X.JSONPointerResolutionError):
        return "ptr-resolution"
    if isinstance(e, X.JSONPointerError):
        return "ptr"
    if isinstance(e, X.JSONPathError):
        return "path"
    return "foreign:" + type(e).__name__
