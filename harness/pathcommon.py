"""Shared replay logic for the JSONPath evaluation properties (C01, C03, C20 and others).

A TLC run of MC_PathEval exports (once) the document universe with a per-node table and
(per terminal state) a query AST, its text in every style and the expected node list
(locations) for every document.
"""
from __future__ import annotations

import json
from typing import Any, Dict, List, Optional, Sequence, Tuple

from .core import Check, loc_to_parts, parts_to_loc, show, tlc, untag, untext

CFG = """CONSTANTS Universe = "{universe}"
SPECIFICATION Spec
INVARIANT LocOK
INVARIANT Denotation
INVARIANT WrongKindSelectsNothing
INVARIANT Export
PROPERTY Terminates
"""


def run_universes(chk: Check, universes: Sequence[str], module: str = "MC_PathEval", cfg: str = CFG) -> Tuple[List[Dict[str, Any]], List[Dict[str, Any]]]:
    docs: Optional[List[Dict[str, Any]]] = None
    recs: List[Dict[str, Any]] = []
    for u in universes:
        r = tlc(module, cfg.format(universe=u), timeout=3000)
        chk.add_tlc(r)
        n = 0
        for x in r.records:
            if "docs" in x:
                docs = x["docs"]
            else:
                x["universe"] = u
                recs.append(x)
                n += 1
        chk.extra[f"queries_{u}"] = n
    assert docs is not None
    return docs, recs


def walk(doc: Any, loc: Sequence[Dict[str, Any]]) -> Any:
    cur = doc
    for st in loc:
        cur = cur[untext(st["s"])] if st["k"] == "key" else cur[st["i"]]
    return cur


def lockey(loc: Sequence[Dict[str, Any]]) -> Tuple[Any, ...]:
    return tuple(("k", tuple(s["s"])) if s["k"] == "key" else (("n", tuple(s["s"])) if s["k"] == "kname" else ("i", s["i"])) for s in loc)


def sel_features(q: Dict[str, Any]) -> str:
    """Short description of a query's constructs (for signatures)."""
    f = []
    for sg in q["segs"]:
        kinds = "+".join(s["k"] for s in sg["sels"])
        f.append(("..") + kinds if sg["desc"] else kinds)
    return "/".join(f) or "root"


# ---- RFC 9535 2.5.2.2: which visit orders of a descendant segment are valid --------------------


def must_precede(u: Tuple[Any, ...], w: Tuple[Any, ...], order: Dict[Tuple[Any, ...], int]) -> bool:
    """u must be visited before w: u is an ancestor of w, or an earlier sibling of an
    ancestor-or-self of w (elements of one array in array order, members of one object in
    document order, a node before its descendants)."""
    if len(u) < len(w) and w[: len(u)] == u:
        return True
    if len(u) >= 1 and len(w) >= len(u) and w[: len(u) - 1] == u[:-1] and w[len(u) - 1] != u[-1]:
        return order[u] < order[w[: len(u)]]
    return False


def alt_descendant_order_ok(q: Dict[str, Any], exp: List[Any], obs: List[Any], node_order: Dict[Tuple[Any, ...], int]) -> bool:
    """True if obs is a reordering of exp that some RFC-valid visit order could produce.
    Exact for queries whose only descendant segment is the last one with child selectors;
    for other shapes a pure reordering is accepted (documented in DESIGN.md section 7)."""
    if sorted(map(repr, exp)) != sorted(map(repr, obs)):
        return False
    descs = [i for i, sg in enumerate(q["segs"]) if sg["desc"]]
    if not descs:
        return False
    if descs != [len(q["segs"]) - 1]:
        return True
    # group observed results by visited node (= parent of the result)
    visited: List[Tuple[Any, ...]] = []
    for loc in obs:
        par = tuple(loc[:-1])
        if not visited or visited[-1] != par:
            if par in visited:
                return False  # results of one visited node must be contiguous
            visited.append(par)
    for i in range(len(visited)):
        for j in range(i + 1, len(visited)):
            if visited[j] in node_order and visited[i] in node_order and must_precede(visited[j], visited[i], node_order):
                return False
    # within a group the selector order must be the expected one
    def groups(seq: List[Any]) -> Dict[Any, List[Any]]:
        g: Dict[Any, List[Any]] = {}
        for loc in seq:
            g.setdefault(tuple(loc[:-1]), []).append(loc)
        return g
    return groups(exp) == groups(obs)


class DocTable:
    """The exported documents, each with its node table, freshly re-built on demand."""

    def __init__(self, docs: List[Dict[str, Any]]) -> None:
        self.docs = docs
        self.by_loc: List[Dict[Tuple[Any, ...], Dict[str, Any]]] = []
        self.order: List[Dict[Tuple[Any, ...], int]] = []
        for d in docs:
            self.by_loc.append({lockey(n["loc"]): n for n in d["nodes"]})
            self.order.append({lockey(n["loc"]): i for i, n in enumerate(d["nodes"])})

    def fresh(self, d: int) -> Any:
        return untag(self.docs[d]["doc"])

    def __len__(self) -> int:
        return len(self.docs)


# ---- generic comparison of evaluation results (used by C02, C13, ...) ---------------------------


def expr_features(node: Any, acc: Optional[set] = None) -> set:
    """Constructs used inside a query / expression AST (for signatures)."""
    if acc is None:
        acc = set()
    if isinstance(node, dict):
        k = node.get("k")
        if k == "cmp":
            acc.add("op" + node["op"])
        elif k in ("fn", "ftest"):
            acc.add(node["f"] + "()")
        elif k in ("or", "and", "not", "key", "undef", "list", "re", "keys"):
            acc.add(k)
        elif k == "test":
            acc.add("test")
        elif k == "filter":
            acc.add("filter")
        if "root" in node and "segs" in node:
            if node["root"] != "@":
                acc.add("root" + node["root"])
            if node["root"] == "@" and not node["segs"]:
                acc.add("bare@")
        for v in node.values():
            expr_features(v, acc)
    elif isinstance(node, list):
        for v in node:
            expr_features(v, acc)
    return acc


def value_kind(v: Any) -> str:
    if v is None:
        return "null"
    if isinstance(v, bool):
        return "bool"
    if isinstance(v, (int, float)):
        return "num"
    if isinstance(v, str):
        return "str"
    if isinstance(v, list):
        return "arr"
    if isinstance(v, dict):
        return "obj"
    return type(v).__name__


def describe_candidate(v: Any) -> str:
    if isinstance(v, dict) and set(v) <= {"x", "y"}:
        return "x:" + (value_kind(v["x"]) if "x" in v else "absent") + ",y:" + (value_kind(v["y"]) if "y" in v else "absent")
    if isinstance(v, dict):
        return "obj{" + ",".join(f"{k}:{value_kind(x)}" for k, x in list(v.items())[:3]) + "}"
    return value_kind(v)


_TWISTED: List[Any] = []


def _twisted_env() -> Any:
    """An environment of a subclass with the default options whose comparison is always true and whose functions answer nonsense."""
    import jsonpath
    from jsonpath.function_extensions import ExpressionType, FilterFunction

    if not _TWISTED:
        class One(FilterFunction):
            arg_types = [ExpressionType.VALUE]
            return_type = ExpressionType.VALUE

            def __call__(self, *_a: Any) -> Any:
                return 1

        class Yes(FilterFunction):
            arg_types = [ExpressionType.VALUE, ExpressionType.VALUE]
            return_type = ExpressionType.LOGICAL

            def __call__(self, *_a: Any) -> Any:
                return True

        class Twisted(jsonpath.JSONPathEnvironment):
            def compare(self, left: object, operator: str, right: object) -> bool:  # noqa: ARG002
                return True

        t = Twisted()
        t.function_extensions["length"] = One()
        t.function_extensions["match"] = Yes()
        t.function_extensions["search"] = Yes()
        _TWISTED.append(t)
    return _TWISTED[0]


def share_containers(doc: Any) -> Any:
    """The document with structurally equal containers (same JSON text, booleans and numbers kept apart) made one object."""
    pool: Dict[str, Any] = {}

    def go(v: Any) -> Any:
        if isinstance(v, list):
            out: Any = [go(x) for x in v]
        elif isinstance(v, dict):
            out = {k: go(x) for k, x in v.items()}
        else:
            return v
        key = json.dumps(out, sort_keys=False)
        return pool.setdefault(key, out)

    return go(doc)


async def _acollect_matches(path: Any, doc: Any, kw: Dict[str, Any]) -> List[Any]:
    return [m async for m in await path.finditer_async(doc, **kw)]


def compare_eval(rec: Dict[str, Any], tbl: "DocTable", *, styles: Sequence[int], float_variants: bool = False,
                 ctx: Any = None, env: Any = None, ordered: bool = True) -> List[Tuple[str, Dict[str, Any], str]]:
    """Compile each text of the record, evaluate on every document and compare locations with the
    specification's node lists.  Returns at most one divergence per record."""
    import jsonpath

    from .core import exc_family, parts_to_loc

    e = env or jsonpath.DEFAULT_ENV if hasattr(jsonpath, "DEFAULT_ENV") else env
    for si in styles:
        text = untext(rec["texts"][si])
        try:
            if env is None:
                # an environment with other decoding options reads the same text first: what a literal in the text means
                # belongs to the environment that compiles it
                try:
                    jsonpath.JSONPathEnvironment(unicode_escape=False, well_typed=False).compile(text)
                except Exception:  # noqa: BLE001
                    pass
                # ... and so does an environment with the very same options but other behaviour (its own comparison and functions):
                # a compiled query evaluates through the environment that compiled it, nobody else's
                try:
                    tw = _twisted_env()
                    tw.findall(text, {"a": [1, {"a": 1, "b": "ab"}], "b": "ab"})
                except Exception:  # noqa: BLE001
                    pass
            path = (env or jsonpath).compile(text)
        except BaseException as ex:  # noqa: BLE001
            return [(f"compile-raised-{exc_family(ex)}|{'+'.join(sorted(expr_features(rec['q'])))}",
                     {"query": text, "style": si, "tagged": rec}, f"query rejected: {type(ex).__name__}: {ex}")]
        for d in range(len(tbl)):
            exp = [lockey(l) for l in rec["res"][d]]
            for fl in ((False, True) if float_variants else (False,)):
                doc = untag(tbl.docs[d]["doc"], floats=fl)
                try:
                    kw = {"filter_context": ctx} if ctx is not None else {}
                    if d > 0 and not fl:
                        # an iterator over the previous document that is abandoned after one match must not
                        # influence this evaluation (the compiled query is shared by all documents)
                        next(iter(path.finditer(untag(tbl.docs[d - 1]["doc"]), **kw)), None)
                    ms = list(path.finditer(doc, **kw))
                    obs = [lockey(parts_to_loc(m.parts)) for m in ms]
                    disc = ""
                    if obs != exp:
                        disc = "selects-other-nodes" if sorted(map(repr, obs)) != sorted(map(repr, exp)) else "wrong-order"
                    elif not fl:
                        # the async twin selects the same nodes
                        avals = _drive(path.findall_async(doc, **kw))
                        if len(avals) != len(ms) or any(a is not m.obj for a, m in zip(avals, ms)):
                            disc = "async-twin-selects-other-nodes"
                        elif d % 4 == 1 and isinstance(doc, (list, dict)):
                            # the document as JSON text: evaluated, what came back edited by the caller, evaluated again
                            tdoc = json.dumps(doc)
                            want = [canon_plain(m.obj) for m in ms]
                            first = path.findall(tdoc, **kw)
                            for v in first:
                                if isinstance(v, list):
                                    v.append("edited-by-caller")
                                elif isinstance(v, dict):
                                    v["edited-by-caller"] = True
                            if [canon_plain(v) for v in path.findall(tdoc, **kw)] != want:
                                disc = "second-evaluation-of-the-same-json-text-differs"
                        elif (d % 4 == 3 or d == len(tbl) - 1) and isinstance(doc, (list, dict)):
                            # the same document with every pair of equal containers being one object (a tree to JSON, a DAG to
                            # the host): read-only evaluation cannot tell - same locations, same order, once per location
                            sdoc = share_containers(untag(tbl.docs[d]["doc"]))
                            sobs = [lockey(parts_to_loc(m.parts)) for m in path.finditer(sdoc, **kw)]
                            if sobs != exp:
                                disc = "document-with-shared-containers-selects-other-nodes"
                            else:
                                aobs = [lockey(parts_to_loc(m.parts)) for m in _drive(_acollect_matches(path, sdoc, kw))]
                                if aobs != exp:
                                    disc = "async-twin-on-document-with-shared-containers-selects-other-nodes"
                        elif d % 4 == 2 and env is None:
                            # one environment object whose options are changed between two uses of the same text
                            e2 = jsonpath.JSONPathEnvironment(unicode_escape=False, filter_caching=False)
                            try:
                                e2.findall(text, doc, **kw)
                            except Exception:  # noqa: BLE001
                                pass
                            e2.unicode_escape, e2.filter_caching = True, True
                            v2 = e2.findall(text, doc, **kw)
                            if len(v2) != len(ms) or any(a is not m.obj for a, m in zip(v2, ms)):
                                disc = "environment-remembers-the-text-from-before-its-options-changed"
                except BaseException as ex:  # noqa: BLE001
                    disc = f"evaluate-raised-{exc_family(ex)}"
                    obs = []
                if disc:
                    diff = [l for l in exp if l not in obs] + [l for l in obs if l not in exp]
                    cand = ""
                    if diff:
                        try:
                            cur = doc
                            for kind, val in diff[0]:
                                cur = cur[untext(val) if kind == "k" else val]
                            cand = ("missed:" if diff[0] in exp else "extra:") + describe_candidate(cur)
                        except Exception:  # noqa: BLE001
                            cand = "?"
                    sig = f"{disc}|{'+'.join(sorted(expr_features(rec['q'])))}|{cand}"
                    return [(sig, {"query": text, "style": si, "floats": fl, "doc_index": d,
                                   "doc": show(tbl.docs[d]["doc"]) if len(json.dumps(tbl.docs[d]["doc"])) < 3000 else "(large)",
                                   "expected": [list(loc_to_parts_k(l)) for l in exp][:40], "observed": [list(loc_to_parts_k(l)) for l in obs][:40],
                                   "tagged": rec}, disc)]
    return []


def canon_plain(v: Any) -> str:
    """A JSON value as text that separates true from 1 (for comparing values that are not the same objects)."""
    return json.dumps(v, sort_keys=True, default=str) + ("|bool" if isinstance(v, bool) else "")


def _drive(coro: Any) -> Any:
    """Run a coroutine that never really suspends (no event loop needed)."""
    try:
        while True:
            coro.send(None)
    except StopIteration as e:
        return e.value


def loc_to_parts_k(key: Tuple[Any, ...]) -> List[Any]:
    return [untext(v) if k in ("k", "n") else v for k, v in key]


# ---- families of exported programs, reused by C10 / C17 / C08 / C09 ------------------------------

FAMILY = {
    "path": ("MC_PathEval", CFG),
    "filter": ("MC_Filter", """CONSTANTS Universe = "{universe}"
SPECIFICATION Spec
INVARIANT Export
"""),
    "ext": ("MC_Ext", """CONSTANTS Universe = "{universe}"
SPECIFICATION Spec
INVARIANT Export
"""),
}


def load_family(chk: Check, family: str, universes: Sequence[str]) -> List[Dict[str, Any]]:
    """Run TLC for the universes of one module; each returned record carries its documents
    (rec['_docs']), filter context (rec['_ctx'], tagged or None) and expected values per document."""
    module, cfg = FAMILY[family]
    out: List[Dict[str, Any]] = []
    for u in universes:
        r = tlc(module, cfg.format(universe=u), timeout=3000)
        chk.add_tlc(r)
        docs = None
        ctx = None
        recs = []
        for x in r.records:
            if "docs" in x:
                docs = x["docs"]
                ctx = x.get("ctx")
            else:
                recs.append(x)
        for x in recs:
            x["universe"] = u
            x["family"] = family
            x["_docs"] = docs
            x["_ctx"] = ctx
        out += recs
    return out


def value_at(start: Any, loc: Sequence[Dict[str, Any]]) -> Any:
    cur = start
    for st in loc:
        if st["k"] == "kname":
            return untext(st["s"])
        cur = cur[untext(st["s"])] if st["k"] == "key" else cur[st["i"]]
    return cur


def expected_values(rec: Dict[str, Any], d: int) -> List[Any]:
    """The values the specification expects for document d of a family record."""
    doc = untag(rec["_docs"][d]["doc"])
    root = rec["q"]["root"] if "q" in rec else "$"
    ctx = untag(rec["_ctx"]) if rec.get("_ctx") else None
    start = [doc] if root == "^" else (ctx if root == "_" else doc)
    return [value_at(start, l) for l in rec["res"][d]]


# ---- seeded random (document, query) pairs drawn by the specification (MC_PathRandom.tla) ---------

RCFG = """CONSTANTS MaxDepth = {depth}
 MaxSegs = {segs}
 WithFilters = {filters}
 Ext = {ext}
INIT Init
NEXT Next
INVARIANT LocOK
INVARIANT Denotation
INVARIANT Export
"""


def random_cases(chk: Check, *, filters: bool, num: int, seed: int, jobs: int = 8, depth: int = 3, segs: int = 3, ext: bool = False) -> List[Dict[str, Any]]:
    from .core import tlc_parallel

    js = [("MC_PathRandom", RCFG.format(depth=depth, segs=segs, filters="TRUE" if filters else "FALSE", ext="TRUE" if ext else "FALSE"),
           dict(simulate=(num // jobs, segs + 3), seed=seed * 1000 + k, workers=1, timeout=3000)) for k in range(jobs)]
    out: List[Dict[str, Any]] = []
    seen = set()
    for r in tlc_parallel(js, threads=jobs):
        chk.add_tlc(r)
        for x in r.records:
            key = json.dumps((x["texts"][0], x["doc"]))
            if key not in seen:
                seen.add(key)
                out.append(x)
    return out


def replay_random(rec: Dict[str, Any]) -> List[Tuple[str, Dict[str, Any], str]]:
    """One random (document, query): every spelling evaluated and compared with the specification."""
    import jsonpath

    from .core import exc_family, parts_to_loc

    exp = [lockey(l) for l in rec["res"]]
    for si, t in enumerate(rec["texts"]):
        text = untext(t)
        for fl in (False, True):
            doc = untag(rec["doc"], floats=fl)
            try:
                ms = list(jsonpath.finditer(text, doc))
                obs = [lockey(parts_to_loc(m.parts)) for m in ms]
                disc = ""
                if obs != exp:
                    node_order = {lockey(l): i for i, l in enumerate(_locs_of(rec["doc"]))}
                    if not alt_descendant_order_ok(rec["q"], exp, obs, node_order):
                        disc = "selects-other-nodes" if sorted(map(repr, obs)) != sorted(map(repr, exp)) else "wrong-order"
                elif any(m.obj is not value_at(doc, l) for m, l in zip(ms, rec["res"])):
                    disc = "values-not-the-nodes-at-their-locations"
            except BaseException as e:  # noqa: BLE001
                disc = f"raised-{exc_family(e)}"
                obs = []
            if disc:
                return [(f"random:{disc}|{sel_features(rec['q'])}|{'+'.join(sorted(expr_features(rec['q'])))}",
                         {"query": text, "doc": show(rec["doc"]), "floats": fl, "expected": [loc_to_parts_k(l) for l in exp], "observed": [loc_to_parts_k(l) for l in obs],
                          "tagged": rec}, disc)]
    return []


def _locs_of(t: Dict[str, Any], loc: Optional[List[Dict[str, Any]]] = None) -> List[List[Dict[str, Any]]]:
    loc = loc or []
    out = [loc]
    if t["t"] == "arr":
        for i, x in enumerate(t["xs"]):
            out += _locs_of(x, loc + [{"k": "idx", "s": [], "i": i}])
    elif t["t"] == "obj":
        for k, x in zip(t["ks"], t["vs"]):
            out += _locs_of(x, loc + [{"k": "key", "s": k, "i": 0}])
    return out
