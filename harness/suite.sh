#!/bin/sh
# Run the pinned test suite of /repo (guard off) and print the summary line.
cd "${1:-/repo}" && env -u PYJSONPATH_VERIF /venv/bin/python -m pytest -q -p no:cacheprovider --timeout=900 --continue-on-collection-errors 2>&1 | tail -4
