"""Regenerate /verif/MANIFEST.json from the table below: /venv/bin/python -m harness.manifest"""
from __future__ import annotations

import json
from pathlib import Path

VERIF = Path(__file__).resolve().parent.parent

BASELINE = ("cd /repo && env -u PYJSONPATH_VERIF /venv/bin/python -m pytest -ra -q -p no:cacheprovider --timeout=900 "
            "--continue-on-collection-errors --junitxml=/tmp/verif-baseline.junit.xml")

ENGINE = "tlc+replay"

# id -> (level category, level text, level note, technique, design_ref)
CHECKS = {
    "C05": (
        "model_checking",
        "TLC explores the RFC 6902 patch state machine (spec/Patch.tla, MC_Patch.tla): every single operation over the "
        "document/path/value universe exhaustively with the operation algebra checked as invariants in every state, operation "
        "sequences by BFS and seeded random walks; every exported behaviour is replayed into jsonpath.patch and the document "
        "after each operation compared with the specification's state. Bounded exhaustive conformance, not a proof.",
        "Trusted: the transcription of RFC 6902/6901 into Patch.tla/Pointer.tla (guarded by the Laws invariants and the appendix "
        "examples), TLC, the ~40-line tag/untag codec. Negative array indices (documented extension) are outside the universe.",
        "TLA+ state machine of patch application model-checked with TLC; behaviours replayed into the implementation step by step",
        "5 (C05)",
    ),
}

NOT_YET = {}


def build() -> dict:
    props = [json.loads(l) for l in (VERIF / "properties.jsonl").read_text().splitlines() if l.strip()]
    checks = []
    na = []
    for p in props:
        pid = p["id"]
        if pid in CHECKS:
            cat, text, note, tech, ref = CHECKS[pid]
            checks.append({
                "property_id": pid,
                "quick_cmd": f"./check {pid} --tier quick",
                "thorough_cmd": f"./check {pid} --tier thorough",
                "evidence_file": f"/verif/evidence/{pid}.json",
                "replay_cmd_template": f"./check {pid} --replay {{path}}",
                "engine": ENGINE,
                "level_claimed": {"category": cat, "text": text, "design_ref": "DESIGN.md section " + ref},
                "level_note": note,
                "technique": tech,
            })
        else:
            na.append({"property_id": pid, "reason": NOT_YET.get(pid, "check not built yet in this round (planned, DESIGN.md section 5); nothing is claimed for it")})
    return {
        "version": 1,
        "setup_cmd": "cd /verif && ./setup.sh",
        "hooks": {
            "guard": "PYJSONPATH_VERIF",
            "enable": "environment variable PYJSONPATH_VERIF=1 (set by ./check); the code is imported from /repo's working tree, nothing is built",
            "baseline_off_cmd": BASELINE,
            "source_commits": HOOK_COMMITS,
            "add_only": True,
        },
        "engines": [{
            "name": ENGINE,
            "path": "/verif/check",
            "serves_properties": sorted(CHECKS),
            "kind_free_text": "TLA+ specification (spec/*.tla) model-checked / simulated with TLC 1.8; behaviours exported by TLC are replayed "
                              "into the Python implementation and traces recorded from the implementation are validated by TLC trace specs",
        }],
        "checks": checks,
        "notes": "All checks: ./check <id> --tier quick|thorough [--replay file]; code under test is imported from $VERIF_REPO (default /repo).",
        "not_applicable": na,
    }


HOOK_COMMITS: list = []

if __name__ == "__main__":
    m = build()
    (VERIF / "MANIFEST.json").write_text(json.dumps(m, indent=1) + "\n")
    import jsonschema  # type: ignore

    jsonschema.validate(m, json.load(open("/root/.vp/MANIFEST.schema.json")))
    print("MANIFEST.json written:", len(m["checks"]), "checks,", len(m["not_applicable"]), "not applicable")
