"""Regenerate /verif/MANIFEST.json from the table below: /venv/bin/python -m harness.manifest"""
from __future__ import annotations

import json
from pathlib import Path

VERIF = Path(__file__).resolve().parent.parent

BASELINE = ("cd /repo && env -u PYJSONPATH_VERIF /venv/bin/python -m pytest -ra -q -p no:cacheprovider --timeout=900 "
            "--continue-on-collection-errors --junitxml=/tmp/verif-baseline.junit.xml")

ENGINE = "tlc+replay"

# id -> (level category, level text, level note, technique, design_ref)
CHECKS = {
    "C05": (
        "model_checking",
        "TLC explores the RFC 6902 patch state machine (spec/Patch.tla, MC_Patch.tla): every single operation over the "
        "document/path/value universe exhaustively with the operation algebra checked as invariants in every state, operation "
        "sequences by BFS and seeded random walks; every exported behaviour is replayed into jsonpath.patch and the document "
        "after each operation compared with the specification's state. Bounded exhaustive conformance, not a proof.",
        "Trusted: the transcription of RFC 6902/6901 into Patch.tla/Pointer.tla (guarded by the Laws invariants and the appendix "
        "examples), TLC, the ~40-line tag/untag codec. Negative array indices (documented extension) are outside the universe.",
        "TLA+ state machine of patch application model-checked with TLC; behaviours replayed into the implementation step by step",
        "5 (C05)",
    ),
}

def _mc(spec, what, note, tech, ref):
    return ("model_checking",
            f"TLC model-checks {spec} ({what}); every behaviour / terminal state it exports is replayed into the real classes and the observed "
            "state compared with the specification's after each action. Bounded exhaustive conformance plus seeded random walks, not a proof.",
            note, tech, ref)


CHECKS.update({
    "C04": _mc("the RFC 6901 descent machine (spec/Pointer.tla, MC_Pointer.tla)",
               "documents x (pointer of every node + every one-token mutation), reachability/failure invariants in every state",
               "Trusted: transcription of RFC 6901 sections 3-4, TLC, codec; `is` identity observed by the harness. Documented extensions (negative indices, "
               "'#'/'~' tokens, leading blanks, huge integers) are outside the universe.",
               "TLA+ descent state machine model-checked with TLC; terminal states replayed through every resolution entry point", "5 (C04)"),
    "C12": _mc("the Query iterator state machine (spec/MC_QueryIter.tla)",
               "all operation chains up to the bound over match lists of every length, slicing invariants and action properties",
               "Trusted: the list-slicing reading of each operation as written in the spec; what first_one/last_one/views leave behind is not compared.",
               "TLA+ state machine over one shared iterator model-checked with TLC; chains replayed per prefix", "5 (C12)"),
    "C14": _mc("the pointer navigation machine (spec/Pointer.tla, MC_PtrNav.tla)",
               "all token sequences over the delicate alphabet and all join/slash/join-many/parent chains, navigation laws as invariants",
               "Trusted: RFC 6901 text<->token transcription; tokens without backslashes, joined tokens without leading blanks (as the property states).",
               "TLA+ navigation state machine model-checked with TLC; behaviours replayed into JSONPointer objects after every action", "5 (C14)"),
    "C15": _mc("the patch-as-a-value machine (spec/Patch.tla, MC_PatchValue.tla)",
               "build (document / incremental builder / own asdicts) ; (apply | asdicts)* histories, patch-never-changes action property",
               "Trusted: RFC 6902 transcription plus the documented addne/addap differences; container identity observed with id().",
               "TLA+ history machine model-checked with TLC; histories replayed into one JSONPatch object", "5 (C15)"),
    "C16": _mc("the relative-pointer application machine (spec/RelPointer.tla, MC_RelPointer.tla)",
               "every base x relative pointer of the universe, three phases per application, closed form and draft examples, termination",
               "Trusted: transcription of the Relative JSON Pointer draft; offsets on non-index tokens are outside the universe.",
               "TLA+ three-phase state machine model-checked with TLC (incl. liveness); terminal states replayed through parse/print/apply", "5 (C16)"),
})

CHECKS.update({
    "C01": _mc("the segment-by-segment evaluation machine (spec/JsonPath.tla, EvalMachine.tla, MC_PathEval.tla, Render.tla)",
               "every selector query of the universes over all documents at once: LocOK, pipeline = RFC denotation = second formulation, termination",
               "Trusted: transcription of RFC 9535 2.3/2.5 (two independent formulations must agree), the renderer of surface spellings, TLC, codec. "
               "Reorderings are accepted only if an RFC-valid descendant visit order explains them.",
               "TLA+ evaluation state machine model-checked with TLC; each query rendered in every spelling and evaluated by the implementation on the same documents", "5 (C01)"),
    "C02": _mc("the evaluation machine with filter selectors (spec/JsonPath.tla Truth/Compare/Call, Regex.tla, MC_Filter.tla)",
               "comparison table over all ordered value pairs x operators x operand forms, expression-shape trees, the five functions; comparison algebra and RFC Table 11 as ASSUMEs",
               "Trusted: transcription of RFC 9535 2.3.5/2.4; regular expressions restricted to the modelled common dialect; numbers are multiples of 1/2.",
               "TLA+ filter semantics model-checked with TLC; every filter query evaluated by the implementation and the selected children compared", "5 (C02)"),
    "C03": _mc("the evaluation machine plus the per-node tables (NormPath, PrintPtr) of the specification",
               "every match of the query universes: normalized path, parts, pointer, parent against the node table, and by re-evaluation",
               "Trusted: RFC 9535 2.7 and RFC 6901 transcriptions; object identity observed with `is`.",
               "TLA+ node tables (normalized path, pointer) exported by TLC; every match of the implementation checked against them and re-evaluated", "5 (C03)"),
    "C20": _mc("the evaluation machine plus tree surgery (SetAtLoc / RemoveAtLoc) per node",
               "every match x {test, replace, remove} through the match's pointer",
               "Trusted: RFC 6902 transcription; results compared as JSON values.",
               "TLA+ tree-surgery results exported by TLC per node; patches built from match pointers applied by the implementation and compared", "5 (C20)"),
})

CHECKS.update({
    "C11": _mc("the compound-query fold (spec/JsonPath.tla Compound, MC_Compound.tla)",
               "compound queries of 1-3 (4) operands in every |/& arrangement, one operator per step, fold = closed form, monotonicity, termination",
               "Trusted: the left-fold reading of | and & as restated by the property; intersection universes avoid bool/number look-alikes.",
               "TLA+ fold state machine model-checked with TLC; each compound query evaluated through 15 entry points x 3 document forms", "5 (C11)"),
    "C13": _mc("the evaluation machine with the extension constructs (spec/JsonPath.tla, MC_Ext.tla)",
               "each documented extension in every position, direct semantics = desugared standard form (DesugarAgrees), six alias spellings",
               "Trusted: the documentation as restated by the property; membership universes avoid bool/number look-alikes.",
               "TLA+ extension semantics model-checked with TLC against their desugared form; each alias spelling evaluated by the implementation", "5 (C13)"),
})

CHECKS.update({
    "C07": _mc("the typing judgement (spec/Typing.tla, MC_Typing.tla) and the specification's own front end closed on itself (Lexer.tla, Parser.tla, ParseBack.tla, MC_ParseRender.tla: parser verdict = typing verdict, Parse o Lex o Render = identity)",
               "every well-/ill-typed construct at every position of a logical expression, selector defects, integer bounds under default, narrowed, asymmetric and zero limits; type soundness of accepted programs; the real lexer's tokens and the real parser's tree / error class for every text and every lexeme soup validated by TLC against the lexer and parser models (Trace_Parser.tla)",
               "Trusted: independent transcription of RFC 9535 2.4.3 and the 2.1-2.5 grammar side conditions; renderer.",
               "TLA+ typing rules evaluated by TLC over enumerated programs (with type soundness checked); verdict compared with what compile() accepts in every spelling; trace validation of recorded (text, tokens, tree) triples against TLA+ lexer and parser models", "5 (C07)"),
    "C10": _mc("the program universes of MC_PathEval / MC_Filter / MC_Ext / MC_Compound with the specification's semantics",
               "every exported program in every spelling: compile, print, recompile, print; recompiled query evaluated against the semantics of the original AST; the syntax tree of the string form equals the tree of the original; tokens and trees of every spelling and string form validated by TLC against Lexer.tla / Parser.tla and mapped back to the program (Trace_ParseBack.tla)",
               "Trusted: the specification's semantics of the original program; documents of each universe stand in for 'every document'.",
               "TLC-exported programs round-tripped through str()/compile() and the recompiled query compared with the TLA+ semantics of the original", "5 (C10)"),
})

CHECKS.update({
    "C06": ("exploration",
            "Code -> specification: TLC enumerates the inputs (MC_Soup.tla: every lexeme soup up to a length bound and every single-lexeme mutant of valid queries, "
            "pointers, relative pointers; patch operation lists with wrong or missing members); a recorder runs each through a session of real API calls under a "
            "watchdog; TLC validates every recorded session against the session machine of Api.tla (allowed error families per call, construct-before-use, error "
            "text renders). Exploration: the claim is 'on everything enumerated', termination is observed under a time bound.",
            "Trusted: the property's own list of families as transcribed in Api.tla; exception classification by isinstance; 5 s watchdog per call. Inputs nested > 100 levels "
            "and regex engine time are outside the universes.",
            "TLC-enumerated inputs recorded through the real API; recorded sessions trace-validated by TLC against a TLA+ protocol specification", "5 (C06)"),
    "C08": _mc("the program universes with their semantics, and the interleaving model MC_Async.tla",
               "(A) every exported program x document through sync and 5 async entry points, plain and async-wrapped documents; (B) all interleavings of 2-3 concurrent evaluations",
               "Trusted: the deterministic scheduler (send(None)) as a stand-in for an event loop; identity observed with `is`.",
               "sync/async twins compared over TLC-exported programs; TLC-enumerated schedules replayed by resuming real coroutines in that order", "5 (C08)"),
    "C09": _mc("the lazy-iterator / memo-cell machine (spec/MC_Sessions.tla) and the thread machine (spec/MC_Threads.tla)",
               "all interleavings of open/next/close on lazy iterators, one-shot evaluations and re-compilation; SchedIndependence, CacheTransparency, OneWriter; "
               "the wrong design SharedCells=TRUE is refuted by TLC on every run; thread schedules at the grain of one library source line (every single pre-emption "
               "point, two pre-emptions on a grid, random bursts; the wrong design SharedScratch=TRUE refuted on every run) run with real threads under a deterministic line scheduler",
               "Trusted: the abstraction of a resolution's cells as 'root and context captured at the first candidate'; iterators interleaved at next() granularity, "
               "threads at source-line granularity (not between the bytecodes of one line).",
               "TLA+ model of lazy iterators, per-resolution memo cells and pre-emptive threads model-checked with TLC; histories replayed into real generators with caching "
               "on and off, thread schedules replayed with real threads under a line-grain scheduler, memo-cell hook events validated by a TLC trace specification", "5 (C09)"),
    "C17": _mc("the token-assignment universe (spec/MC_Tokens.tla, Render.tla token styles)",
               "every ordered pair of identifiers x ordered pair of spellings (prefix-related, multi-character, non-ASCII) x programs using every identifier",
               "Trusted: the meaning of a program does not mention spellings (by construction of JsonPath.tla); renderer.",
               "TLC-enumerated token assignments rendered by the specification; environment subclasses built and compared on token kinds, results and str() round trip", "5 (C17)"),
    "C18": _mc("the CLI phase machine (spec/MC_Cli.tla)",
               "every option combination x expression class x document class; exit codes, one-line errors, traceback only with --debug, no crash state, termination",
               "Trusted: the concrete input chosen per class; main() run in-process with patched argv/stdio.",
               "TLA+ phase machine model-checked with TLC; every terminal state instantiated and run through jsonpath.cli.main()", "5 (C18)"),
    "C19": _mc("the projection machine (spec/Projection.tla, MC_Projection.tla)",
               "documents x match queries x lists of relative queries; declarative = constructive formulation, every selected value at its rank-mapped location, no other leaves",
               "Trusted: the definition of relative / root / flat projection as restated in DESIGN.md 5 (C19); objects compared unordered.",
               "TLA+ projection semantics in two formulations model-checked with TLC; Query.select() compared with the exported projections", "5 (C19)"),
})

NOT_YET = {}


def build() -> dict:
    props = [json.loads(l) for l in (VERIF / "properties.jsonl").read_text().splitlines() if l.strip()]
    checks = []
    na = []
    for p in props:
        pid = p["id"]
        if pid in CHECKS:
            cat, text, note, tech, ref = CHECKS[pid]
            checks.append({
                "property_id": pid,
                "quick_cmd": f"./check {pid} --tier quick",
                "thorough_cmd": f"./check {pid} --tier thorough",
                "evidence_file": f"/verif/evidence/{pid}.json",
                "replay_cmd_template": f"./check {pid} --replay {{path}}",
                "engine": ENGINE,
                "level_claimed": {"category": cat, "text": text, "design_ref": "DESIGN.md section " + ref},
                "level_note": note,
                "technique": tech,
            })
        else:
            na.append({"property_id": pid, "reason": NOT_YET.get(pid, "check not built yet in this round (planned, DESIGN.md section 5); nothing is claimed for it")})
    return {
        "version": 1,
        "setup_cmd": "cd /verif && ./setup.sh",
        "hooks": {
            "guard": "PYJSONPATH_VERIF",
            "enable": "environment variable PYJSONPATH_VERIF=1 (set by ./check before jsonpath is imported from /repo's working tree; nothing is built). "
                      "Hooks live in jsonpath/_verif.py and report filter resolutions and memo-cell reads/writes (used by C09's trace validation)",
            "baseline_off_cmd": BASELINE,
            "source_commits": HOOK_COMMITS,
            "add_only": True,
        },
        "engines": [{
            "name": ENGINE,
            "path": "/verif/check",
            "serves_properties": sorted(CHECKS),
            "kind_free_text": "TLA+ specification (spec/*.tla) model-checked / simulated with TLC 1.8; behaviours exported by TLC are replayed "
                              "into the Python implementation and traces recorded from the implementation are validated by TLC trace specs",
        }],
        "checks": checks,
        "notes": "All checks: ./check <id> --tier quick|thorough [--replay file]; code under test is imported from $VERIF_REPO (default /repo).",
        "not_applicable": na,
    }


import subprocess

HOOK_COMMITS: list = subprocess.run(["git", "-C", "/repo", "log", "--format=%H", "--grep=^hooks:"], capture_output=True, text=True).stdout.split()

if __name__ == "__main__":
    m = build()
    (VERIF / "MANIFEST.json").write_text(json.dumps(m, indent=1) + "\n")
    try:
        import jsonschema  # type: ignore

        jsonschema.validate(m, json.load(open("/root/.vp/MANIFEST.schema.json")))
    except ImportError:
        pass
    print("MANIFEST.json written:", len(m["checks"]), "checks,", len(m["not_applicable"]), "not applicable")
