---------------------------- MODULE MC_Projection ----------------------------
(***************************************************************************)
(* C19: projection as a machine: match query, then the relative queries one *)
(* by one (each adds its selections, in order), then the projection of each *)
(* match under the three styles.                                            *)
(***************************************************************************)
EXTENDS Projection, Render, Json

CONSTANT MaxRel    \* number of relative queries

VARIABLES d, mq, rels, k, sels
vars == <<d, mq, rels, k, sels>>

a_ == <<97>>  b_ == <<98>>  x_ == <<120>>  y_ == <<121>>  z_ == <<122>>  p_ == <<112>>  q_ == <<113>>  n1_ == <<49>>
S(t) == Str(t)
DocSeq == <<
  Obj(<<a_, b_, n1_, p_, q_>>,
      << Obj(<<x_, y_, z_, <<233>>, q_>>, <<IntV(1), Arr(<<IntV(10), IntV(20), IntV(30)>>), Obj(<<p_, q_>>, <<IntV(0), Bool(FALSE)>>), IntV(9),
                                          Obj(<<p_, q_>>, <<Obj(<<>>, <<>>), Arr(<<Obj(<<>>, <<>>)>>)>>)>>),       \* empty objects stay objects
         Arr(<<Obj(<<x_, y_>>, <<IntV(1), IntV(2)>>), Obj(<<x_, y_>>, <<S(<<>>), Null>>), Arr(<<IntV(5), IntV(6), IntV(7)>>)>>),
         Obj(<<n1_, x_>>, <<S(<<111, 110, 101>>), Arr(<<>>)>>),
         S(<<123, 34, 120, 34, 58, 32, 49, 125>>),         \* the string {"x": 1}: JSON text is still a primitive
         S(<<91, 49, 44, 32, 50, 93>>) >>),                \* the string [1, 2]
  Arr(<<Arr(<<IntV(0), Arr(<<IntV(1), IntV(2)>>), IntV(3)>>), Obj(<<x_>>, <<Arr(<<Obj(<<y_>>, <<IntV(0)>>), Obj(<<y_>>, <<Bool(FALSE)>>)>>)>>), IntV(4)>>),
  \* arrays long enough for indices of one and of two digits (10 sorts before 2 as text, after it as a number)
  Obj(<<a_, b_>>, <<Obj(<<y_>>, <<Arr([i \in 1..12 |-> IntV(100 + i)])>>), Arr([i \in 1..12 |-> Obj(<<x_>>, <<IntV(i)>>)])>>) >>

MatchQueries == { Q("$", <<Child(SName(a_))>>), Q("$", <<Child(SName(b_)), Child(SWild)>>), Q("$", <<Child(SName(b_))>>), Q("$", <<>>),
                  Q("$", <<Child(SName(a_)), Child(SName(y_))>>), Q("$", <<Descend(SName(z_))>>), Q("$", <<Child(SName(a_)), Child(SName(x_))>>),
                  Q("$", <<Child(SName(n1_))>>), Q("$", <<Child(SWild)>>), Q("$", <<Child(SIndex(1)), Child(SName(x_))>>), Q("$", <<Descend(SName(x_))>>) }
RelQueries == { Q("$", <<Child(SName(x_))>>), Q("$", <<Child(SName(y_))>>), Q("$", <<Child(SName(y_)), Child(SIndex(0))>>), Q("$", <<Child(SName(y_)), Child(SIndex(2))>>),
                Q("$", <<Child(SName(y_)), Seg(FALSE, <<SIndex(0), SIndex(2)>>)>>), Q("$", <<Child(SName(y_)), Child(SSlice(<<1>>, <<>>, <<>>))>>),
                Q("$", <<Child(SName(z_)), Child(SName(p_))>>), Q("$", <<Child(SName(z_)), Child(SName(q_))>>), Q("$", <<Child(SWild)>>), Q("$", <<Child(SIndex(0))>>),
                Q("$", <<Child(SIndex(1)), Child(SName(x_))>>), Q("$", <<Child(SWild), Child(SName(x_))>>), Q("$", <<Seg(FALSE, <<SIndex(0), SIndex(2)>>)>>),
                Q("$", <<Child(SIndex(2)), Child(SIndex(1))>>), Q("$", <<Child(SName(b_))>>), Q("$", <<Child(SName(n1_))>>), Q("$", <<Child(SWild), Child(SName(y_))>>),
                Q("$", <<Child(SIndex(1)), Child(SName(x_)), Child(SWild), Child(SName(y_))>>), Q("$", <<Child(SName(x_)), Child(SIndex(1))>>),
                Q("$", <<Child(SName(y_)), Child(SSlice(<<>>, <<>>, <<0>>))>>),       \* a zero step selects nothing
                Q("$", <<Child(SName(q_))>>), Q("$", <<Child(SName(q_)), Child(SName(p_))>>), Q("$", <<Child(SName(q_)), Child(SName(q_)), Child(SIndex(0))>>),
                Q("$", <<Child(SName(y_)), Seg(FALSE, <<SIndex(2), SIndex(10)>>)>>), Q("$", <<Child(SName(y_)), Child(SSlice(<<8>>, <<12>>, <<>>))>>),
                \* negative indices address the same elements as their normalized spelling
                \* a member and something inside it (one selection below another: see Nested)
                Q("$", <<Child(SName(b_)), Child(SIndex(1)), Child(SName(x_))>>), Q("$", <<Child(SName(z_))>>),
                Q("$", <<Child(SName(<<233>>))>>), Q("$", <<Child(SName(y_)), Child(SIndex(-1))>>), Q("$", <<Child(SIndex(-1))>>), Q("$", <<Child(SIndex(-1)), Child(SName(x_))>>),
                \* a negative start that reaches back past the first element is the first element; a negative index that does is nothing
                \* member names selected below a member that is selected whole (only in the nested universe: the document is not modified)
                Q("$", <<Child(SName(z_)), Child(SKeys)>>),
                Q("$", <<Child(SName(y_)), Child(SSlice(<<-9>>, <<2>>, <<>>))>>), Q("$", <<Child(SName(y_)), Child(SIndex(-13))>>), Q("$", <<Child(SIndex(-4))>>) }

Matches == Eval(mq, DocSeq[d])
\* selections of one relative query below one match, locations relative to the match
RelSel(m, rq) == LET ns == Eval(rq, m.v) IN [i \in 1..Len(ns) |-> Sel(ns[i].loc, ns[i].v)]

Init == /\ d \in 1..Len(DocSeq)
        /\ mq \in MatchQueries
        /\ \E n \in 1..MaxRel : rels \in [1..n -> RelQueries]
        /\ k = 0
        /\ sels = [i \in 1..Len(Eval(mq, DocSeq[d])) |-> <<>>]

\* apply the next relative query to every match
Select == /\ k < Len(rels)
          /\ sels' = [i \in 1..Len(Matches) |-> sels[i] \o RelSel(Matches[i], rels[k + 1])]
          /\ k' = k + 1
          /\ UNCHANGED <<d, mq, rels>>
Next == Select
Spec == Init /\ [][Next]_vars /\ WF_vars(Next)
Terminal == k = Len(rels)

\* (the keys selector is not among the relative queries the property lists: it only takes part in the nested universe, for its last clause)
HasKeys == \E r \in 1..Len(rels) : \E g \in 1..Len(rels[r].segs) : \E j \in 1..Len(rels[r].segs[g].sels) : rels[r].segs[g].sels[j].k = "keys"
InUniverse == ~HasKeys /\ \A i \in 1..Len(Matches) : Admissible(sels[i]) /\ Ascending(sels[i])

\* ---- properties ---------------------------------------------------------------------
TwoFormulations == (Terminal /\ InUniverse) => \A i \in 1..Len(Matches) : sels[i] # <<>> => Build(sels[i]) = BuildByInsertion(sels[i])
\* every selected value is found at its rank-mapped location, and nothing else is there
Found == (Terminal /\ InUniverse) => \A i \in 1..Len(Matches) : \A j \in 1..Len(sels[i]) :
            At(Build(sels[i]), RankLoc(sels[i], sels[i][j].loc)) = sels[i][j].v
RECURSIVE Leaves(_)
Leaves(v) == IF v.t = "arr" /\ v.xs # <<>> THEN UNION {Leaves(v.xs[i]) : i \in 1..Len(v.xs)}
             ELSE IF v.t = "obj" /\ v.ks # <<>> THEN UNION {Leaves(v.vs[i]) : i \in 1..Len(v.vs)} ELSE {v}
NoOtherLeaves == (Terminal /\ InUniverse) => \A i \in 1..Len(Matches) : sels[i] # <<>> =>
                    Leaves(Build(sels[i])) \subseteq UNION {Leaves(sels[i][j].v) : j \in 1..Len(sels[i])}
Terminates == <>Terminal

Out(style) == LET ps == [i \in 1..Len(Matches) |-> Project(style, Matches[i].loc, Matches[i].v, sels[i])] IN SelectSeq(ps, LAMBDA p : p.t # "none")
Export == (Terminal /\ InUniverse) =>
   PrintT(ToJson([doc |-> DocSeq[d], match |-> Render(mq, StdStyle), rels |-> [i \in 1..Len(rels) |-> Render(rels[i], [StdStyle EXCEPT !.rootless = (i % 2 = 0), !.uni = TRUE])],
                  flat |-> Out("flat"), relative |-> Out("relative"), root |-> Out("root"), nsel |-> [i \in 1..Len(Matches) |-> Len(sels[i])]]))
\* Outside the universe only because one selection lies below another (a member and something inside it): the nested forms of the
\* projection are then not determined by the property, but its flat form is (the selected values in selection order), and so is
\* its last clause - the document is not modified - which the harness checks under all three styles.
Nested == /\ \A i \in 1..Len(Matches) : Ascending(sels[i]) /\ \A j \in 1..Len(sels[i]) : sels[i][j].loc # <<>>
          /\ \E i \in 1..Len(Matches) : ~Admissible(sels[i])
ExportNested == (Terminal /\ Nested) =>
   PrintT(ToJson([nested |-> TRUE, haskeys |-> HasKeys, doc |-> DocSeq[d], match |-> Render(mq, StdStyle), rels |-> [i \in 1..Len(rels) |-> Render(rels[i], [StdStyle EXCEPT !.rootless = (i % 2 = 0), !.uni = TRUE])],
                  flat |-> Out("flat"), nsel |-> [i \in 1..Len(Matches) |-> Len(sels[i])]]))
=============================================================================
