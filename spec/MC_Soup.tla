------------------------------- MODULE MC_Soup -------------------------------
(***************************************************************************)
(* C06 inputs, enumerated by the specification: lexeme soups (every         *)
(* sequence up to a length bound over the lexeme alphabet of each language) *)
(* and every single-lexeme mutant of a set of valid sentences.              *)
(***************************************************************************)
EXTENDS Naturals, Sequences, FiniteSets, TLC, Json

CONSTANTS Lang, MaxLen, Mode      \* Lang: "path" | "pointer" | "relptr"; Mode: "soup" | "mutants"

\* TLC keeps strings as bytes when it spills states to disk, so lexemes outside ASCII are given by name
\* ("EACUTE", "SUPER2", "ARDIGIT1" - ARABIC-INDIC DIGIT ONE, a digit to the host's \d and int()) and spelled out by the recorder; "HUGE" stands for a run of 4400 nines (more digits
\* than the host's integer conversion accepts), which no specification string could usefully carry; "LIMIT4300" stands for a run of exactly 4300 nines
\* (the most digits the host converts: one more digit after an addition and it cannot be printed); "SQRUN" /
\* "DQRUN" / "RERUN" stand for an opening ' / " / slash followed by 70 backslashes (an unterminated literal with a long escape run)
VARIABLES s, done
vars == <<s, done>>

L(str) == str
PathLex == << "$", "@", ".", "..", "[", "]", "(", ")", "?", "*", ",", ":", "'a'", "\"b\"", "'", "\"", "a", "1", "-1", "01", "1e2", "1.5", "1e-1",
              "9007199254740993", "-", "+", "==", "!=", "<", "<>", "&&", "||", "!", " in ", " contains ", "=~", "/a/", "/(/", "/a", "/a/i", "true", "null",
              "length(", "count(", "match(", "search(", "value(", "nosuch(", "is(", "typeof(", "#", "_", "~", "^", " | ", " & ", "undefined", " ", "\\", "'\\u00e9'", "'\\ud800'", "EACUTE", "0", "and", "not ",
              "1e400", "1.0e16", "1.5e1", "/a{99999999999999999999}/", "'a{99999999999999999999}'", "aaaaaaaaaaaaaaaaaaaaaaaaaaaaaaaaaaaaaaaa", "HUGE", "SQRUN", "DQRUN", "RERUN", "/(?u)a/a", "'(?a)(?u)a'", "-1.0e309", "1.0e-400", "<=", ">=", "1e23", "9007199254740993e0", "/a b/x", "ARDIGIT1" >>
PtrLex == << "/", "~", "0", "1", "a", "-", "#", "\\u0041", "\\", "\\ud800", " ", "EACUTE", "%41", "~0", "~1", "~2", "-1", "01", "9007199254740993", "\\x", "SUPER2", "HUGE", "%ff", "%c3" >>
RelLex == << "0", "1", "2", "10", "+", "-", "#", "/", "a", "~", "01", " ", "\\", "+0", "EACUTE", "HUGE", "LIMIT4300" >>
Lex == CASE Lang = "path" -> PathLex [] Lang = "pointer" -> PtrLex [] Lang = "relptr" -> RelLex [] OTHER -> <<>>

\* patch documents: operation records whose members are given as codes the recorder decodes
\*   "s:<text>" a string, "n:1" the number 1, "l:" an empty array, "null", "absent" (member omitted), "h:<text>" the text followed by 4400 nines
OpV == {"s:add", "s:remove", "s:replace", "s:move", "s:copy", "s:test", "s:addne", "s:addap", "s:frob", "n:1", "null", "absent"}
PathV == {"s:/a", "s:", "s:/a/-", "s:/a/0", "s:a", "n:1", "absent", "s:/a/~2", "s:/b/c", "null", "s:/a/9", "s:/", "s:/a/#0", "s:/a/#", "h:/a/#", "h:/a/"}
FromV == {"absent", "s:/a", "s:/z", "n:1", "s:x", "s:/a/0"}
ValV == {"absent", "n:1", "l:", "s:{x"}
PatchOps == [op : OpV, path : PathV, from : FromV, value : ValV]
PatchOpsSmall == [op : {"s:add", "s:move", "s:test", "s:remove", "s:replace", "absent"}, path : {"s:/a/0", "s:/a/-", "s:", "s:/z/z"}, from : {"absent", "s:/a/0", "s:/a"}, value : {"n:1", "l:", "s:{x"}]
N == Len(Lex)

\* valid sentences (as index sequences into Lex are awkward to write, they are given as lexeme sequences)
Bases ==
  CASE Lang = "path" -> { <<"$", ".", "a", "[", "1", "]">>, <<"$", "[", "?", "@", ".", "a", "==", "1", "]">>, <<"$", "..", "[", "'a'", ",", "\"b\"", "]">>,
                          <<"$", "[", "?", "length(", "@", ".", "a", ")", "<", "1", "]">>, <<"$", "[", "1", ":", "-1", ":", "1", "]">>,
                          <<"$", "[", "?", "@", ".", "a", "=~", "/a/i", "&&", "!", "@", ".", "a", "]">>, <<"$", ".", "a", " | ", "$", "..", "*">>,
                          <<"^", "[", "?", "#", " in ", "[", "1", ",", "'a'", "]", "||", "_", ".", "a", "]">>,
                          <<"$", "[", "?", "match(", "@", ",", "'a'", ")", "]">>, <<"$", "[", "?", "count(", "@", ".", "*", ")", "==", "1", "]">>,
                          <<"$", "[", "?", "@", "[", "?", "@", ".", "a", "]", "]">>, <<"$", ".", "a", ".", "~">>,
                          <<"$", "..", "[", "?", "@", ".", "a", " in ", "@", ".", "b", "]">>, <<"$", "..", "[", "?", "@", ".", "b", " contains ", "@", ".", "a", "]">>,
                          <<"$", "[", "?", "match(", "@", ".", "a", ",", "'a'", ")", "]">>,
                          <<"$", "[", "?", "(", "@", ".", "a", "==", "1", ")", "==", "true", "]">>, <<"$", "[", "?", "@", ".", "a", "<", "(", "1.5e1", "<", "1.0e16", ")", "]">>,
                          <<"$", "[", "?", "!", "(", "@", ".", "a", "||", "@", ".", "b", ")", "&&", "@", ".", "a", "!=", "1.0e16", "]">>,
                          <<"$", "[", "?", "count(", "length(", "@", ".", "a", ")", ")", "==", "1", "]">>, <<"$", "..", "[", "-1", "]">>,
                          <<"$", "[", "?", "value(", "count(", "@", ".", "*", ")", ")", "==", "1", "]">>,
                          <<"$", "..", "[", "?", "search(", "@", ",", "'a'", ")", "]">>, <<"$", "[", "?", "@", ".", "a", "==", "1e23", "]">>,
                          <<"$", "[", "?", "@", ".", "a", "=~", "/a/i", "]">>,
                          <<"$", "[", "?", "is(", "@", ".", "a", ",", "@", ".", "b", ")", "]">>, <<"$", "..", "[", "?", "typeof(", "@", ")", "==", "'a'", "]">>,
                          \* slices written without brackets (a non-standard shorthand), two in a row
                          <<"$", ".", "1", ":", "-1", ".", "0", ":", "1">>, <<"$", "..", "1", ":", ".", ":", "1", ":", "-1">> }
    [] Lang = "pointer" -> { <<"/", "a", "/", "0">>, <<"/", "~0", "/", "~1">>, <<>>, <<"/", "-">>, <<"/", "EACUTE", "/", "\\u0041">> }
    [] Lang = "relptr" -> { <<"0">>, <<"1", "/", "a">>, <<"0", "+", "1">>, <<"2", "#">>, <<"0", "-", "10", "/", "a">> }
    [] OTHER -> {}
LexSet == {Lex[i] : i \in 1..N}
Mutants(b) == {[b EXCEPT ![i] = x] : i \in 1..Len(b), x \in LexSet}
              \cup {SubSeq(b, 1, i) \o <<x>> \o SubSeq(b, i + 1, Len(b)) : i \in 0..Len(b), x \in LexSet}
              \cup {SubSeq(b, 1, i - 1) \o SubSeq(b, i + 1, Len(b)) : i \in 1..Len(b)}
Soups == UNION {[1..n -> LexSet] : n \in 0..MaxLen}

\* an element of the operation list that is not an object at all (the recorder puts the decoded value in its place)
NotAnOp(code) == [op |-> code, path |-> "elem", from |-> "elem", value |-> "elem"]
Init == /\ s \in (IF Lang = "patch" THEN (IF MaxLen = 1 THEN {<<o>> : o \in PatchOps} \cup {<<NotAnOp(c)>> : c \in {"n:1", "null", "s:add", "l:"}}
                                          ELSE {<<o1, o2>> : o1 \in PatchOpsSmall, o2 \in PatchOpsSmall}
                                               \cup {<<o1, NotAnOp(c)>> : o1 \in PatchOpsSmall, c \in {"n:1", "null", "s:add", "l:"}})
                   ELSE IF Mode = "soup" THEN Soups ELSE UNION {Mutants(b) : b \in Bases} \cup Bases)
        /\ done = FALSE
Next == ~done /\ done' = TRUE /\ UNCHANGED s
Spec == Init /\ [][Next]_vars
Export == done => PrintT(ToJson([s |-> s]))
=============================================================================
