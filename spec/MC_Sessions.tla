------------------------------ MODULE MC_Sessions ------------------------------
(***************************************************************************)
(* C09: evaluation is pure.  One compiled query is used by several lazy    *)
(* result iterators over several documents and filter contexts, in any     *)
(* interleaving, next to one-shot evaluations and re-compilation.          *)
(*                                                                         *)
(* The lazy pipeline is modelled at the grain of iterator advancement: an  *)
(* open iterator has a scan position over the candidates of its filter     *)
(* selector and, from the first candidate on, a memo cell environment for  *)
(* the sub-expressions that do not depend on the candidate (root- and      *)
(* context-rooted sub-queries, functions of them).  A *resolution* owns    *)
(* its cells: they are written once, when its first candidate is           *)
(* evaluated, and read only by that resolution.                            *)
(*                                                                         *)
(* SharedCells = TRUE models the wrong design (cells owned by the compiled *)
(* expression, surviving between evaluations); TLC must then find a        *)
(* violation of SchedIndependence - the self-test of this specification.   *)
(***************************************************************************)
EXTENDS Render, Json

CONSTANTS NIter, MaxLen, SharedCells, QueryIx

VARIABLES iters, shared, gen, hist
vars == <<iters, shared, gen, hist>>

a_ == <<97>>  b_ == <<98>>  c_ == <<99>>  k_ == <<107>>  v_ == <<118>>  r_ == <<114>>  t_ == <<116>>  w_ == <<119>>  o_ == <<111>>
At1(name) == OQ(Q("@", <<Child(SName(name))>>))
RootK == OQ(Q("$", <<Child(SName(k_))>>))
CtxV == OQ(Q("_", <<Child(SName(v_))>>))
\* queries with cacheable sub-expressions mixed with per-candidate ones
QuerySeq == <<
  Q("$", <<Child(SName(c_)), Child(SFilter(ECmp("==", At1(a_), RootK)))>>),
  Q("$", <<Child(SName(c_)), Child(SFilter(ECmp(">=", At1(a_), CtxV)))>>),
  Q("$", <<Child(SName(c_)), Child(SFilter(EOr(ECmp("==", At1(a_), RootK), ECmp("==", At1(b_), CtxV))))>>),
  Q("$", <<Child(SName(c_)), Child(SFilter(ECmp("==", OFn("length", <<OQ(Q("$", <<Child(SName(r_))>>))>>), At1(a_))))>>),
  Q("$", <<Descend(SFilter(EAnd(ECmp("==", At1(a_), RootK), ENot(ECmp("==", RootK, CtxV)))))>>),
  Q("$", <<Child(SName(c_)), Child(SFilter(ETest(Q("@", <<Child(SFilter(ECmp("==", At1(a_), RootK)))>>))))>>),
  Q("$", <<Child(SName(c_)), Child(SFilter(ECmp("==", OKey, RootK)))>>),
  Q("$", <<Child(SName(c_)), Child(SFilter(EAnd(ETest(Q("$", <<Child(SName(r_)), Child(SIndex(1))>>)), ECmp("!=", At1(a_), RootK))))>>),
  \* a per-candidate sub-query whose nested filter is itself candidate-independent: its result still belongs to the candidate
  Q("$", <<Child(SName(c_)), Child(SFilter(ETest(Q("@", <<Child(SFilter(ECmp("==", RootK, CtxV)))>>))))>>),
  Q("$", <<Child(SName(c_)), Child(SFilter(ECmp("==", OFn("count", <<OQ(Q("@", <<Child(SFilter(ETest(Q("$", <<Child(SName(r_)), Child(SIndex(1))>>))))>>))>>), RootK)))>>),
  \* a bracketed segment with two selectors below a filter: each selector is applied to every parent node in turn
  Q("$", <<Child(SName(c_)), Child(SFilter(ECmp(">=", At1(a_), RootK))), Seg(FALSE, <<SName(a_), SName(b_)>>)>>),
  \* a root value that is 1 in one document and true in another: equal to the host, different JSON values (a memo of comparisons keyed by the host's equality)
  Q("$", <<Child(SName(c_)), Child(SFilter(ECmp("==", At1(a_), OQ(Q("$", <<Child(SName(t_))>>)))))>>),
  \* a deep comparison of two containers (many steps inside one comparison: what a second thread may interleave with)
  Q("$", <<Child(SName(c_)), Child(SFilter(ECmp("==", At1(o_), OQ(Q("$", <<Child(SName(w_))>>)))))>>) >>
TheQuery == QuerySeq[QueryIx]

Deep(x, y) == Obj(<<a_, b_>>, <<Arr(<<IntV(1), Obj(<<c_>>, <<Arr(<<IntV(x)>>)>>)>>), Arr(<<IntV(y)>>)>>)
Cands(k) == Arr(<<Obj(<<a_, b_, o_>>, <<IntV(1), IntV(2), Deep(1, k)>>), Obj(<<a_, o_>>, <<IntV(2), Deep(k, 2)>>), Obj(<<a_, b_>>, <<IntV(k), IntV(1)>>),
                  Arr(<<Obj(<<a_>>, <<IntV(1)>>), Obj(<<a_>>, <<IntV(2)>>)>>), Obj(<<b_>>, <<IntV(k)>>), IntV(1)>>)
DocSeq == << Obj(<<k_, c_, r_, t_, w_>>, <<IntV(1), Cands(1), Arr(<<IntV(0)>>), IntV(1), Deep(1, 2)>>),
             Obj(<<k_, c_, r_, t_, w_>>, <<IntV(2), Cands(2), Arr(<<IntV(0), IntV(0)>>), Bool(TRUE), Deep(2, 2)>>),
             Obj(<<k_, c_, r_, t_, w_>>, <<IntV(1), Cands(1), Arr(<<IntV(0)>>), IntV(1), Deep(1, 2)>>) >>      \* equal to the first, a different object
CtxSeq == << Obj(<<v_>>, <<IntV(1)>>), Obj(<<v_>>, <<IntV(2)>>) >>

\* the result of a solo evaluation: a function of (query, document, context) alone
Expected(d, c) == EvalCtx(TheQuery, DocSeq[d], CtxSeq[c])
\* the result when the candidate-independent sub-expressions are read from cells written under (cd, cc):
\* they only depend on root and context, so this is the query evaluated with that root and context
\* against the candidates of (d, c)
RECURSIVE SubstRoot(_, _)
Stale(d, c, cd, cc) ==
  LET real == RootEnv(DocSeq[d], CtxSeq[c])
      cellEnv == [real EXCEPT !.root = Node(<<>>, DocSeq[cd]), !.ctx = CtxSeq[cc]]
  IN RunSegs(TheQuery.segs, 1, <<real.root>>, cellEnv)
SubstRoot(x, y) == x

Idle == [st |-> "idle", d |-> 0, c |-> 0, out |-> 0, cd |-> 0, cc |-> 0, g |-> 0]

Init == /\ iters = [i \in 1..NIter |-> Idle]
        /\ shared = [set |-> FALSE, d |-> 0, c |-> 0]
        /\ gen = 0
        /\ hist = <<>>

Rec(act, it, d, c, exp) == [act |-> act, it |-> it, d |-> d, c |-> c, exp |-> exp]
Room == Len(hist) < MaxLen

Open(it, d, c) ==
  /\ Room /\ iters[it].st = "idle"
  /\ iters' = [iters EXCEPT ![it] = [st |-> "open", d |-> d, c |-> c, out |-> 0, cd |-> 0, cc |-> 0, g |-> gen]]
  /\ hist' = Append(hist, Rec("open", it, d, c, <<>>))
  /\ UNCHANGED <<shared, gen>>

\* what this iterator's resolution sees in its cells once they are written
CellsOf(it) == IF SharedCells /\ shared.set THEN <<shared.d, shared.c>> ELSE <<iters[it].d, iters[it].c>>
ResultOf(it) == LET w == IF iters[it].cd = 0 THEN CellsOf(it) ELSE <<iters[it].cd, iters[it].cc>> IN Stale(iters[it].d, iters[it].c, w[1], w[2])

Advance(it) ==
  /\ Room /\ iters[it].st = "open"
  /\ LET w == IF iters[it].cd = 0 THEN CellsOf(it) ELSE <<iters[it].cd, iters[it].cc>>     \* cells are written once per resolution
         res == Stale(iters[it].d, iters[it].c, w[1], w[2])
     IN /\ IF iters[it].out < Len(res)
           THEN /\ iters' = [iters EXCEPT ![it].out = @ + 1, ![it].cd = w[1], ![it].cc = w[2]]
                /\ hist' = Append(hist, Rec("next", it, iters[it].d, iters[it].c, <<res[iters[it].out + 1].loc>>))
           ELSE /\ iters' = [iters EXCEPT ![it].st = "done", ![it].cd = w[1], ![it].cc = w[2]]
                /\ hist' = Append(hist, Rec("stop", it, iters[it].d, iters[it].c, <<>>))
        /\ shared' = IF SharedCells /\ ~shared.set THEN [set |-> TRUE, d |-> iters[it].d, c |-> iters[it].c] ELSE shared
  /\ UNCHANGED gen

Close(it) ==
  /\ Room /\ iters[it].st \in {"open", "done"}
  /\ iters' = [iters EXCEPT ![it] = Idle]
  /\ hist' = Append(hist, Rec("close", it, 0, 0, <<>>))
  /\ UNCHANGED <<shared, gen>>

FindAll(d, c) ==
  /\ Room
  /\ LET w == IF SharedCells /\ shared.set THEN <<shared.d, shared.c>> ELSE <<d, c>>
         res == Stale(d, c, w[1], w[2])
     IN /\ hist' = Append(hist, Rec("findall", 0, d, c, [i \in 1..Len(res) |-> res[i].loc]))
        /\ shared' = IF SharedCells /\ ~shared.set THEN [set |-> TRUE, d |-> d, c |-> c] ELSE shared
  /\ UNCHANGED <<iters, gen>>

Recompile ==
  /\ Room
  /\ gen' = gen + 1
  /\ shared' = [set |-> FALSE, d |-> 0, c |-> 0]       \* a fresh compiled object has fresh cells
  /\ hist' = Append(hist, Rec("recompile", 0, 0, 0, <<>>))
  /\ UNCHANGED iters

Next == \/ \E it \in 1..NIter : (\E d \in 1..Len(DocSeq), c \in 1..Len(CtxSeq) : Open(it, d, c)) \/ Advance(it) \/ Close(it)
        \/ \E d \in 1..Len(DocSeq), c \in 1..Len(CtxSeq) : FindAll(d, c)
        \/ Recompile
\* (the sets drawn from mention the state - Z is zero - because TLC evaluates an expression without variables once, not once per step)
Z == Len(hist) - Len(hist)
NextSim == \E k \in {RandomElement(1..(10 + Z))}, it \in {RandomElement(1..(NIter + Z))}, d \in {RandomElement(1..(Len(DocSeq) + Z))}, c \in {RandomElement(1..(Len(CtxSeq) + Z))} :
             IF iters[it].st = "idle" /\ k <= 6 THEN Open(it, d, c)
             ELSE IF iters[it].st = "open" /\ k <= 7 THEN Advance(it)
             ELSE IF k = 8 /\ iters[it].st # "idle" THEN Close(it)
             ELSE IF k = 9 THEN Recompile ELSE FindAll(d, c)
Spec == Init /\ [][Next]_vars

\* ---- properties ------------------------------------------------------------------------
\* schedule independence: whatever has been done in between, every iterator is producing the
\* result of a solo evaluation of (query, its document, its context)
SchedIndependence == \A it \in 1..NIter : iters[it].st # "idle" =>
                       /\ iters[it].out <= Len(Expected(iters[it].d, iters[it].c))
                       /\ ResultOf(it) = Expected(iters[it].d, iters[it].c)
\* a resolution's cells are written once, with values computed from its own root and context
CacheTransparency == \A it \in 1..NIter : iters[it].cd # 0 => (iters[it].cd = iters[it].d /\ iters[it].cc = iters[it].c)
OneWriter == [][\A it \in 1..NIter : (iters[it].cd # 0 /\ iters'[it].st # "idle" /\ iters[it].st # "idle") => (iters'[it].cd = iters[it].cd /\ iters'[it].cc = iters[it].cc)]_vars
\* one-shot evaluations give the solo result too
FindAllIsExpected == \A i \in 1..Len(hist) : hist[i].act = "findall" => hist[i].exp = [j \in 1..Len(Expected(hist[i].d, hist[i].c)) |-> Expected(hist[i].d, hist[i].c)[j].loc]

ASSUME PrintT(ToJson([docs |-> [d \in 1..Len(DocSeq) |-> [doc |-> DocSeq[d], nodes |-> <<>>]], ctxs |-> CtxSeq,
                      queries |-> [i \in 1..Len(QuerySeq) |-> Render(QuerySeq[i], StdStyle)]]))
\* the solo results of this query on every (document, context): what each thread of MC_Threads must produce, whatever the schedule
\* ... and when the caller supplies no filter context at all (an empty mapping): whatever earlier evaluations were given is gone
NoCtx(d) == EvalCtx(TheQuery, DocSeq[d], Obj(<<>>, <<>>))
ASSUME PrintT(ToJson([table |-> QueryIx, exp |-> [d \in 1..Len(DocSeq) |-> [c \in 1..Len(CtxSeq) |->
                        [j \in 1..Len(Expected(d, c)) |-> Expected(d, c)[j].loc]]],
                      noctx |-> [d \in 1..Len(DocSeq) |-> [j \in 1..Len(NoCtx(d)) |-> NoCtx(d)[j].loc]]]))
Export == Len(hist) = MaxLen => PrintT(ToJson([q |-> QueryIx, hist |-> hist]))
=============================================================================
