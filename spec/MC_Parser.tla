------------------------------- MODULE MC_Parser -------------------------------
(***************************************************************************)
(* The parser model on EVERY token sequence up to a bound (not only on the *)
(* renderings of programs somebody thought of): a filter selector          *)
(*     $ [ ?  <free tokens>  ]                                             *)
(* whose free part is every sequence of up to MaxLen tokens over the       *)
(* filter-level alphabet.  TLC checks that                                 *)
(*   - the parser model is total: every sequence gets a verdict, an error  *)
(*     being one of the four JSONPath error classes (C06 at model level);  *)
(*   - the checks the parser makes on the way are placed so that no        *)
(*     ill-formed tree is ever accepted (C07's refusal clauses, restated   *)
(*     declaratively on the finished tree by WellFormed): no literal and   *)
(*     no value-typed function result in a test position at any depth, no  *)
(*     non-singular query and no non-value function result as an operand   *)
(*     of a comparison, every function call matching its signature.        *)
(* The code is bound to Parser.tla by Trace_Parser on recorded token       *)
(* sequences (the same alphabet as lexeme soups), so a hole found here is  *)
(* a hole in the code, and a change to the code that opens one is rejected *)
(* there.                                                                  *)
(***************************************************************************)
EXTENDS Naturals, Integers, Sequences, FiniteSets, TLC, SequencesExt

CONSTANT MaxLen

P == INSTANCE Parser WITH MinIdx <- 5, MaxIdx <- 5

VARIABLES mid, done
vars == <<mid, done>>

Tk(k, v, h) == [k |-> k, v |-> v, h |-> h, bad |-> FALSE]
a_ == <<97>>
Alphabet == { Tk("SELF", <<64>>, 0), Tk("ROOT", <<36>>, 0), Tk("PROP", a_, 0), Tk("WILD", <<42>>, 0), Tk("DDOT", <<46, 46>>, 0),
              Tk("INT", <<49>>, 2), Tk("SINGLE_QUOTE_STRING", a_, 0), Tk("TRUE", <<>>, 0), Tk("NIL", <<>>, 0), Tk("UNDEFINED", <<>>, 0), Tk("KEY", <<35>>, 0),
              Tk("FUNCTION", <<108,101,110,103,116,104>>, 0), Tk("FUNCTION", <<99,111,117,110,116>>, 0), Tk("FUNCTION", <<109,97,116,99,104>>, 0),
              Tk("FUNCTION", <<118,97,108,117,101>>, 0),
              Tk("LPAREN", <<40>>, 0), Tk("RPAREN", <<41>>, 0), Tk("COMMA", <<44>>, 0), Tk("NOT", <<33>>, 0), Tk("AND", <<38, 38>>, 0), Tk("OR", <<124, 124>>, 0),
              Tk("EQ", <<61, 61>>, 0), Tk("LT", <<60>>, 0), Tk("LG", <<60, 62>>, 0), Tk("IN", <<105, 110>>, 0), Tk("RE", <<61, 126>>, 0),
              Tk("LBRACKET", <<91>>, 0), Tk("RBRACKET", <<93>>, 0) }

Whole == << Tk("ROOT", <<36>>, 0), Tk("LBRACKET", <<91>>, 0), Tk("FILTER", <<63>>, 0) >> \o mid \o << Tk("RBRACKET", <<93>>, 0) >>

\* the free part grows one token at a time: every sequence up to MaxLen is a state
Init == mid = <<>> /\ done = FALSE
Next == Len(mid) < MaxLen /\ \E t \in Alphabet : mid' = Append(mid, t) /\ UNCHANGED done
Spec == Init /\ [][Next]_vars

\* ---- the refusal clauses, restated on the finished tree ---------------------------------------
RECURSIVE WFTest(_), WFOperand(_), WFSels(_)
IsCmp(op) == op \in {"==", "!=", "<>", "<", "<=", ">", ">=", "=~"}
Comparable(x) == /\ ~(x.k = "path" /\ ~P!SingularSels(x.sels))
                 /\ ~(x.k = "fn" /\ P!Sig(x.f).ret # "value")
WFSels(sels) == \A j \in 1..Len(sels) :
   CASE sels[j].k = "filter" -> WFTest(sels[j].e)
     [] sels[j].k = "list" -> WFSels(sels[j].items)
     [] OTHER -> TRUE
WFCall(x) == /\ P!Sig(x.f).known /\ Len(x.args) = Len(P!Sig(x.f).params)
             /\ \A j \in 1..Len(x.args) : P!ArgOK(x.args[j], P!Sig(x.f).params[j]) /\ WFOperand(x.args[j])
\* an expression in operand / argument position
WFOperand(x) == CASE x.k \in {"infix", "prefix"} -> WFTest(x)
                  [] x.k = "path" -> WFSels(x.sels)
                  [] x.k = "fn" -> WFCall(x)
                  [] OTHER -> TRUE
\* an expression in test position (a whole filter, an operand of && || !)
WFTest(e) ==
  CASE e.k = "infix" /\ e.op \in {"&&", "||"} -> WFTest(e.l) /\ WFTest(e.r)
    [] e.k = "infix" /\ IsCmp(e.op) -> Comparable(e.l) /\ Comparable(e.r) /\ WFOperand(e.l) /\ WFOperand(e.r)
    [] e.k = "infix" -> WFOperand(e.l) /\ WFOperand(e.r)                      \* in, contains: membership, not a comparison
    [] e.k = "prefix" -> WFTest(e.e)
    [] e.k = "path" -> WFSels(e.sels)
    [] e.k = "fn" -> WFCall(e) /\ P!Sig(e.f).ret # "value"
    [] e.k \in {"str", "num", "bool", "re", "nil"} -> FALSE                  \* a literal that is not compared
    [] OTHER -> TRUE                                                          \* the current key, undefined, a list literal (accepted by the implementation)

V == P!Verdict(Whole)
Total == V.ok \in BOOLEAN /\ V.err \in {"none", "syntax", "type", "name", "index"} /\ (V.ok <=> V.err = "none")
NoIllFormedTreeAccepted == V.ok => (V.tree.rest = <<>> /\ WFSels(V.tree.first.sels))
\* not vacuous: the accepted sequences are exported and counted by the harness
ExportAccepted == V.ok => PrintT(<<"accepted", Len(mid)>>)
=============================================================================
