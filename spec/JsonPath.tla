----------------------------- MODULE JsonPath -----------------------------
(***************************************************************************)
(* RFC 9535 JSONPath semantics (sections 2.3 - 2.5) over tagged JSON       *)
(* values, plus the documented non-standard constructs of python-jsonpath  *)
(* (keys selector, fake root, current key, filter context, in / contains,  *)
(* =~, <>, undefined).  Transcribed from the RFC text, not from the code.  *)
(*                                                                         *)
(* AST                                                                     *)
(*  query    [root: "$" | "@" | "_" (filter context) | "^" (fake root), segs]*)
(*  segment  [desc: BOOLEAN, sels: Seq(selector)]                          *)
(*  selector [k:"name", s] [k:"index", i] [k:"slice", lo, hi, st]          *)
(*           [k:"wild"] [k:"filter", e] [k:"keys"]                         *)
(*  expr     [k:"or"|"and", l, r] [k:"not", e] [k:"test", q]               *)
(*           [k:"ftest", f, args] [k:"cmp", op, l, r]                      *)
(*  operand  [k:"lit", v] [k:"q", q] [k:"fn", f, args] [k:"key"]           *)
(*           [k:"undef"] [k:"list", items] [k:"re", re, ic]                *)
(* optional integers are 0/1-length sequences                              *)
(***************************************************************************)
EXTENDS JsonValue, Regex

None == <<>>
Q(root, segs) == [root |-> root, segs |-> segs]
Seg(desc, sels) == [desc |-> desc, sels |-> sels]
Child(sel) == Seg(FALSE, <<sel>>)
Descend(sel) == Seg(TRUE, <<sel>>)
SName(s) == [k |-> "name", s |-> s]
SIndex(i) == [k |-> "index", i |-> i]
SSlice(lo, hi, st) == [k |-> "slice", lo |-> lo, hi |-> hi, st |-> st]
SWild == [k |-> "wild"]
SKeys == [k |-> "keys"]
SFilter(e) == [k |-> "filter", e |-> e]
EOr(l, r) == [k |-> "or", l |-> l, r |-> r]
EAnd(l, r) == [k |-> "and", l |-> l, r |-> r]
ENot(e) == [k |-> "not", e |-> e]
ETest(q) == [k |-> "test", q |-> q]
EFTest(f, args) == [k |-> "ftest", f |-> f, args |-> args]
ECmp(op, l, r) == [k |-> "cmp", op |-> op, l |-> l, r |-> r]
OLit(v) == [k |-> "lit", v |-> v]
OQ(q) == [k |-> "q", q |-> q]
OFn(f, args) == [k |-> "fn", f |-> f, args |-> args]
OKey == [k |-> "key"]
OUndef == [k |-> "undef"]
OList(items) == [k |-> "list", items |-> items]
ORe(re, ic) == [k |-> "re", re |-> re, ic |-> ic, lit |-> FALSE]    \* a pattern given as a string literal
OReLit(re, ic) == [k |-> "re", re |-> re, ic |-> ic, lit |-> TRUE]  \* a /pattern/flags literal (non-standard)

\* evaluation environment of a filter expression
Env(cur, root, ctx, key) == [cur |-> cur, root |-> root, ctx |-> ctx, key |-> key]

\* ---- slices, RFC 9535 2.3.4.2.2 ---------------------------------------------
Normalize(i, len) == IF i >= 0 THEN i ELSE len + i
SliceIndices(s, len) ==
  LET step == IF s.st = None THEN 1 ELSE s.st[1] IN
  IF step = 0 THEN <<>>
  ELSE LET start == IF s.lo # None THEN s.lo[1] ELSE IF step > 0 THEN 0 ELSE len - 1
           end   == IF s.hi # None THEN s.hi[1] ELSE IF step > 0 THEN len ELSE -len - 1
           nstart == Normalize(start, len)
           nend   == Normalize(end, len)
           lower == IF step > 0 THEN Min2(Max2(nstart, 0), len) ELSE Min2(Max2(nend, -1), len - 1)
           upper == IF step > 0 THEN Min2(Max2(nend, 0), len) ELSE Min2(Max2(nstart, -1), len - 1)
           RECURSIVE Up(_), Down(_)
           Up(i) == IF i < upper THEN <<i>> \o Up(i + step) ELSE <<>>
           Down(i) == IF lower < i THEN <<i>> \o Down(i + step) ELSE <<>>
       IN IF step > 0 THEN Up(lower) ELSE Down(upper)

IndexSelectsDecimalKey == TRUE   \* documented departure (property C01)

LastStep(n) == n.loc[Len(n.loc)]
KeyOf(c) == IF LastStep(c).k = "idx" THEN Num(2 * LastStep(c).i) ELSE Str(LastStep(c).s)

IsSubText(a, b) == \E i \in 0..(Len(b) - Len(a)) : SubSeq(b, i + 1, i + Len(a)) = a

RECURSIVE EvalQuery(_, _), ApplySel(_, _, _), ApplySegment(_, _, _), RunSegs(_, _, _, _), Truth(_, _), Operand(_, _), Call(_, _, _)

ApplySel(sel, n, env) ==
  CASE sel.k = "name" ->
         IF n.v.t = "obj" THEN SelectSeq(Children(n), LAMBDA c : LastStep(c).s = sel.s) ELSE <<>>
    [] sel.k = "index" ->
         IF n.v.t = "arr" THEN
           LET len == Len(n.v.xs) i == Normalize(sel.i, len) IN
           IF i >= 0 /\ i < len THEN <<Children(n)[i + 1]>> ELSE <<>>
         ELSE IF n.v.t = "obj" /\ IndexSelectsDecimalKey THEN
           SelectSeq(Children(n), LAMBDA c : LastStep(c).s = Decimal(sel.i))
         ELSE <<>>
    [] sel.k = "slice" ->
         IF n.v.t = "arr" THEN
           LET ix == SliceIndices(sel, Len(n.v.xs)) IN [j \in 1..Len(ix) |-> Children(n)[ix[j] + 1]]
         ELSE <<>>
    [] sel.k = "wild" -> Children(n)
    [] sel.k = "keys" ->     \* non-standard: member names of an object, in order
         IF n.v.t = "obj" THEN [j \in 1..Len(n.v.ks) |-> Node(Append(n.loc, [k |-> "kname", s |-> n.v.ks[j], i |-> j - 1]), Str(n.v.ks[j]))]
         ELSE <<>>
    [] sel.k = "filter" ->
         SelectSeq(Children(n), LAMBDA c : Truth(sel.e, [env EXCEPT !.cur = c, !.key = KeyOf(c)]))

ApplySegment(seg, nodes, env) ==
  LET inputs == IF seg.desc THEN Flat(MapSeq(Desc, nodes)) ELSE nodes
      one(n) == Flat([j \in 1..Len(seg.sels) |-> ApplySel(seg.sels[j], n, env)])
  IN Flat(MapSeq(one, inputs))

RunSegs(segs, k, nodes, env) ==
  IF k > Len(segs) THEN nodes ELSE RunSegs(segs, k + 1, ApplySegment(segs[k], nodes, env), env)

StartNodes(q, env) ==
  CASE q.root = "$" -> <<env.root>>
    [] q.root = "@" -> <<env.cur>>
    [] q.root = "_" -> <<Node(<<>>, env.ctx)>>
    [] q.root = "^" -> <<Node(<<>>, Arr(<<env.root.v>>))>>   \* the document wrapped in a one-element array

EvalQuery(q, env) == RunSegs(q.segs, 1, StartNodes(q, env), env)

IsSingular(q) == \A i \in 1..Len(q.segs) : ~q.segs[i].desc /\ Len(q.segs[i].sels) = 1 /\ q.segs[i].sels[1].k \in {"name", "index"}

\* value of a comparable / function argument: a JSON value, Nothing, or a regex
Operand(x, env) ==
  CASE x.k = "lit" -> x.v
    [] x.k = "q" -> LET ns == EvalQuery(x.q, env) IN IF Len(ns) = 1 THEN ns[1].v ELSE Nothing
    [] x.k = "fn" -> Call(x.f, x.args, env)
    [] x.k = "key" -> env.key
    [] x.k = "undef" -> Nothing
    [] x.k = "list" -> Arr(x.items)
    [] x.k = "re" -> [t |-> "regex", re |-> x.re, ic |-> x.ic]

Call(f, args, env) ==
  CASE f = "length" -> LET v == Operand(args[1], env) IN
                         CASE v.t = "str" -> Num(2 * Len(v.s)) [] v.t = "arr" -> Num(2 * Len(v.xs))
                           [] v.t = "obj" -> Num(2 * Len(v.ks)) [] OTHER -> Nothing
    [] f = "count" -> Num(2 * Len(EvalQuery(args[1].q, env)))
    [] f = "value" -> LET ns == EvalQuery(args[1].q, env) IN IF Len(ns) = 1 THEN ns[1].v ELSE Nothing
    [] f = "match" -> LET v == Operand(args[1], env) p == Operand(args[2], env) IN
                        Bool(v.t = "str" /\ p.t = "regex" /\ FullMatch(p.re, v.s, p.ic))
    [] f = "search" -> LET v == Operand(args[1], env) p == Operand(args[2], env) IN
                        Bool(v.t = "str" /\ p.t = "regex" /\ SearchMatch(p.re, v.s, p.ic))

\* RFC 9535 2.3.5.2.2 comparison; "<>" "in" "contains" "=~" are documented extensions
Member(a, b) ==     \* a in b
  IF IsNothing(a) THEN FALSE
  ELSE CASE b.t = "arr" -> \E i \in 1..Len(b.xs) : JsonEq(a, b.xs[i])
         [] b.t = "obj" -> a.t = "str" /\ KeyIndex(b, a.s) # 0
         [] b.t = "str" -> a.t = "str" /\ IsSubText(a.s, b.s)
         [] OTHER -> FALSE
Compare(op, a, b) ==
  LET eq == IF a.t = "nothing" \/ b.t = "nothing" THEN a.t = b.t ELSE JsonEq(a, b)
      lt == JsonLt(a, b)
      gt == JsonLt(b, a)
  IN CASE op = "==" -> eq [] op = "!=" -> ~eq [] op = "<>" -> ~eq [] op = "<" -> lt [] op = ">" -> gt
       [] op = "<=" -> lt \/ eq [] op = ">=" -> gt \/ eq
       [] op = "in" -> Member(a, b) [] op = "contains" -> Member(b, a)
       [] op = "=~" -> a.t = "str" /\ b.t = "regex" /\ FullMatch(b.re, a.s, b.ic)

Truth(e, env) ==
  CASE e.k = "or" -> Truth(e.l, env) \/ Truth(e.r, env)
    [] e.k = "and" -> Truth(e.l, env) /\ Truth(e.r, env)
    [] e.k = "not" -> ~Truth(e.e, env)
    [] e.k = "paren" -> Truth(e.e, env)      \* explicit (redundant) parentheses
    [] e.k = "test" -> Len(EvalQuery(e.q, env)) > 0
    [] e.k = "ftest" -> Call(e.f, e.args, env).b
    [] e.k = "cmp" -> Compare(e.op, Operand(e.l, env), Operand(e.r, env))

RootEnv(doc, ctx) == LET r == Node(<<>>, doc) IN Env(r, r, ctx, Nothing)
EvalCtx(q, doc, ctx) == EvalQuery(q, RootEnv(doc, ctx))
Eval(q, doc) == EvalCtx(q, doc, Obj(<<>>, <<>>))

\* ---- compound queries (non-standard): left fold over | and & ----------------
\* paths: <<q1, [op |-> "|"/"&", q |-> q2], ...>> as [first, rest]
RECURSIVE EvalCompound(_, _, _, _)
EvalCompound(acc, rest, doc, ctx) ==
  IF rest = <<>> THEN acc
  ELSE LET r == EvalCtx(Head(rest).q, doc, ctx) IN
       EvalCompound(IF Head(rest).op = "|" THEN acc \o r
                    ELSE SelectSeq(acc, LAMBDA n : \E j \in 1..Len(r) : JsonEq(n.v, r[j].v)),
                    Tail(rest), doc, ctx)
Compound(first, rest, doc, ctx) == EvalCompound(EvalCtx(first, doc, ctx), rest, doc, ctx)

\* ---- second, direct formulation of segments (RFC 2.5), for cross-checking ---
\* the nodelist of a query as the concatenation, over input nodes in order, of each
\* selector's nodelist - written with explicit recursion over the input list
RECURSIVE SegDirect(_, _, _)
SegDirect(seg, nodes, env) ==
  IF nodes = <<>> THEN <<>>
  ELSE LET n == Head(nodes)
           RECURSIVE Sels(_)
           Sels(j) == IF j > Len(seg.sels) THEN <<>> ELSE ApplySel(seg.sels[j], n, env) \o Sels(j + 1)
           Sels1(m) == Flat([j \in 1..Len(seg.sels) |-> ApplySel(seg.sels[j], m, env)])
           RECURSIVE Visit(_)     \* descendant segment: node first, then each child subtree in order
           Visit(m) == Sels1(m) \o Flat([c \in 1..Len(Children(m)) |-> Visit(Children(m)[c])])
       IN (IF seg.desc THEN Visit(n) ELSE Sels(1)) \o SegDirect(seg, Tail(nodes), env)
=============================================================================
