------------------------------ MODULE Regex ------------------------------
(***************************************************************************)
(* A small regular-expression matcher over texts (sequences of code        *)
(* points): the dialect on which Python `re` and I-Regexp (RFC 9485) agree.*)
(*   [k |-> "chr", c]  literal character     [k |-> "any"]  "."            *)
(*   [k |-> "cls", set, neg]  character class [k |-> "cat", a, b]          *)
(*   [k |-> "alt", a, b]   [k |-> "star"|"plus"|"opt", a]   [k |-> "eps"]  *)
(* Ends(r, t, S) is the set of positions reachable by matching r starting  *)
(* at any position of S (positions are 1..Len(t)+1).                       *)
(***************************************************************************)
EXTENDS Naturals, Sequences, FiniteSets

Chr(c) == [k |-> "chr", c |-> c]
AnyChar == [k |-> "any"]
Cls(set, neg) == [k |-> "cls", set |-> set, neg |-> neg]
Cat(a, b) == [k |-> "cat", a |-> a, b |-> b]
Alt(a, b) == [k |-> "alt", a |-> a, b |-> b]
Star(a) == [k |-> "star", a |-> a]
Plus(a) == [k |-> "plus", a |-> a]
Opt(a) == [k |-> "opt", a |-> a]
Eps == [k |-> "eps"]

\* ignore-case folding for ASCII letters (flag i)
Fold(c) == IF c >= 65 /\ c <= 90 THEN c + 32 ELSE c

RECURSIVE Ends(_, _, _, _), Closure(_, _, _, _)
Ends(r, t, S, icase) ==
  CASE r.k = "eps" -> S
    [] r.k = "chr" -> {i + 1 : i \in {j \in S : j <= Len(t) /\ (IF icase THEN Fold(t[j]) = Fold(r.c) ELSE t[j] = r.c)}}
    [] r.k = "any" -> {i + 1 : i \in {j \in S : j <= Len(t) /\ t[j] \notin {10, 13}}}
    [] r.k = "cls" -> {i + 1 : i \in {j \in S : j <= Len(t) /\ ((t[j] \in r.set) # r.neg)}}
    [] r.k = "cat" -> Ends(r.b, t, Ends(r.a, t, S, icase), icase)
    [] r.k = "alt" -> Ends(r.a, t, S, icase) \cup Ends(r.b, t, S, icase)
    [] r.k = "opt" -> S \cup Ends(r.a, t, S, icase)
    [] r.k = "star" -> Closure(r.a, t, S, icase)
    [] r.k = "plus" -> Closure(r.a, t, Ends(r.a, t, S, icase), icase)
Closure(a, t, S, icase) ==
  LET N == S \cup Ends(a, t, S, icase) IN IF N = S THEN S ELSE Closure(a, t, N, icase)

FullMatch(r, t, icase) == (Len(t) + 1) \in Ends(r, t, {1}, icase)
SearchMatch(r, t, icase) == \E s \in 1..(Len(t) + 1) : Ends(r, t, {s}, icase) # {}

\* ---- pattern text ---------------------------------------------------------
\* characters that must be escaped to stand for themselves
Special == {92, 46, 42, 43, 63, 40, 41, 124, 91, 93, 123, 125, 94, 36, 47}
RECURSIVE Pat(_, _)
\* prec: 0 = inside alternation, 1 = inside concatenation, 2 = operand of a postfix operator
Pat(r, prec) ==
  LET paren(s, need) == IF need THEN <<40>> \o s \o <<41>> ELSE s IN
  CASE r.k = "eps" -> <<40, 41>>
    [] r.k = "chr" -> IF r.c \in Special THEN <<92, r.c>> ELSE <<r.c>>
    [] r.k = "any" -> <<46>>
    [] r.k = "cls" -> <<91>> \o (IF r.neg THEN <<94>> ELSE <<>>) \o r.txt \o <<93>>
    [] r.k = "cat" -> paren(Pat(r.a, 1) \o Pat(r.b, 1), prec > 1)
    [] r.k = "alt" -> paren(Pat(r.a, 0) \o <<124>> \o Pat(r.b, 0), prec > 0)
    [] r.k = "opt" -> Pat(r.a, 2) \o <<63>>
    [] r.k = "star" -> Pat(r.a, 2) \o <<42>>
    [] r.k = "plus" -> Pat(r.a, 2) \o <<43>>
PatternText(r) == Pat(r, 0)
\* a class with its own source text, e.g. ClsT({97,98,99}, FALSE, "a-c")
ClsT(set, neg, txt) == [k |-> "cls", set |-> set, neg |-> neg, txt |-> txt]
=============================================================================
