----------------------------- MODULE MC_Compound -----------------------------
(***************************************************************************)
(* C11: compound queries (union | and intersection &) as a left fold, one  *)
(* operator per step, over every document at once.  Union is the left      *)
(* result followed by the right one; intersection is the left result       *)
(* restricted to values also produced by the right one.                    *)
(***************************************************************************)
EXTENDS Render, Json

CONSTANT MaxOperands

VARIABLES first, rest, k, acc
vars == <<first, rest, k, acc>>

a_ == <<97>>  b_ == <<98>>  c_ == <<99>>  lim_ == <<108, 105, 109>>
TheCtx == Obj(<<lim_>>, <<IntV(3)>>)
EvalC(qq, d) == EvalCtx(qq, d, TheCtx)
S(t) == Str(t)
Simple == { Q("$", <<Child(SName(a_)), Child(SWild)>>), Q("$", <<Child(SName(b_)), Child(SWild)>>), Q("$", <<Descend(SName(c_))>>),
            Q("$", <<Child(SName(a_)), Child(SSlice(<<1>>, <<>>, <<>>))>>), Q("$", <<Child(SName(b_)), Child(SIndex(0))>>),
            Q("$", <<Child(SName(a_)), Child(SFilter(ECmp(">", OQ(Q("@", <<>>)), OLit(IntV(1)))))>>),
            \* a fake-root operand and one that reads the caller's filter context
            Q("^", <<Child(SFilter(ETest(Q("@", <<Child(SName(a_))>>)))), Child(SName(a_)), Child(SWild)>>),
            Q("$", <<Child(SName(b_)), Child(SFilter(ECmp(">=", OQ(Q("@", <<>>)), OQ(Q("_", <<Child(SName(lim_))>>)))))>>),
            \* an operand that calls a function (looked up in the environment's registry when it is evaluated)
            Q("$", <<Child(SName(a_)), Child(SFilter(ECmp("==", OFn("count", <<OQ(Q("@", <<Child(SWild)>>))>>), OLit(IntV(0)))))>>) }
\* no boolean/number look-alike pairs: the statement does not say which equality "also produced" means
DocSeq == << Obj(<<a_, b_, c_>>, <<Arr(<<IntV(1), IntV(2), IntV(3), IntV(2)>>), Arr(<<IntV(2), IntV(3), IntV(4)>>), IntV(3)>>),
             Obj(<<a_, b_>>, <<Arr(<<S(a_), Arr(<<IntV(1)>>), Obj(<<c_>>, <<IntV(2)>>), IntV(2)>>), Arr(<<Arr(<<IntV(1)>>), S(a_), Obj(<<c_>>, <<IntV(2)>>)>>)>>),
             Arr(<<IntV(1)>>), Obj(<<a_, b_>>, <<Arr(<<>>), Arr(<<IntV(1)>>)>>),
             Obj(<<a_, b_, c_>>, <<Obj(<<a_, c_>>, <<IntV(5), IntV(6)>>), Obj(<<b_, c_>>, <<IntV(6), IntV(5)>>), Arr(<<IntV(5)>>)>>),
             \* strings where the operand queries put an index, a slice, a wildcard: nothing is selected from a string
             Obj(<<a_, b_, c_>>, <<S(<<104, 101, 108, 108, 111>>), S(<<120, 121>>), S(a_)>>),
             \* a document that is a string - one that reads as the JSON text of the first document: it is a string all the same, nothing
             \* is selected from it (it can only be handed over as JSON text or in a file: the API reads a str argument as JSON text)
             S(<<123,34,97,34,58,91,49,44,50,44,51,44,50,93,44,34,98,34,58,91,50,44,51,44,52,93,44,34,99,34,58,51,125>>) >>
NDocs == Len(DocSeq)

\* (the bare root query - no selectors at all - on its own and as the left operand of one operator)
Init == /\ \E n \in 0..(MaxOperands - 1) :
             /\ rest \in [1..n -> {[op |-> o, q |-> s] : o \in {"|", "&"}, s \in Simple}]
             /\ first \in Simple \cup (IF n <= 1 THEN {Q("$", <<>>)} ELSE {})
        /\ k = 0
        /\ acc = [d \in 1..NDocs |-> EvalC(first, DocSeq[d])]

Step == /\ k < Len(rest)
        /\ acc' = [d \in 1..NDocs |->
                     LET r == EvalC(rest[k + 1].q, DocSeq[d]) IN
                     IF rest[k + 1].op = "|" THEN acc[d] \o r
                     ELSE SelectSeq(acc[d], LAMBDA n : \E j \in 1..Len(r) : JsonEq(n.v, r[j].v))]
        /\ k' = k + 1
        /\ UNCHANGED <<first, rest>>
Next == Step
Spec == Init /\ [][Next]_vars /\ WF_vars(Next)
Terminal == k = Len(rest)

FoldAgrees == Terminal => \A d \in 1..NDocs : acc[d] = Compound(first, rest, DocSeq[d], TheCtx)
\* an intersection never adds nodes, a union never removes any
Monotone == [][\A d \in 1..NDocs : IF rest[k + 1].op = "|" THEN Len(acc'[d]) >= Len(acc[d]) ELSE Len(acc'[d]) <= Len(acc[d])]_vars
Terminates == <>Terminal

ASSUME PrintT(ToJson([docs |-> [d \in 1..NDocs |-> [doc |-> DocSeq[d], nodes |-> <<>>]], ctx |-> TheCtx]))
Export == Terminal => PrintT(ToJson([first |-> first, rest |-> rest, text |-> RenderCompound(first, rest, StdStyle),
                                      text2 |-> RenderCompound(first, rest, [StdStyle EXCEPT !.dot = TRUE, !.sp = <<32>>]),
                                      res |-> [d \in 1..NDocs |-> [i \in 1..Len(acc[d]) |-> acc[d][i].v]]]))
=============================================================================
