------------------------------ MODULE MC_Patch ------------------------------
(***************************************************************************)
(* C05 / C15: patch application as a state machine over a document.        *)
(* One action per operation kind; the history (operations applied so far   *)
(* and the document after each) is carried in hist so that every behaviour *)
(* can be replayed into the implementation, comparing after every step.    *)
(***************************************************************************)
EXTENDS Patch, Json

CONSTANTS MaxOps,      \* length bound of operation sequences
          Universe     \* "single" | "seq"  - which document / operation universe

VARIABLES doc0, doc, hist
vars == <<doc0, doc, hist>>

T(str) == str  \* placeholder to keep text literals readable below
A == <<97>>  B == <<98>>  N1 == <<49>>  N01 == <<48, 49>>  M1 == <<45, 49>>  P1 == <<43, 49>>
N0 == <<48>>  M0 == <<45, 48>>  Y == <<121>>  E == <<>>   TLD == <<126>>  SL == <<97, 47, 98>>  X == <<120>>

S0 == {IntV(1), Bool(TRUE), Null}
D1 == ArraysOver(S0, 2) \cup ObjectsOver({A, N1, N01}, S0, 2)
S2 == {IntV(1), Arr(<<>>), Arr(<<IntV(1)>>), Arr(<<IntV(1), Bool(TRUE)>>), Obj(<<A>>, <<IntV(1)>>), Obj(<<N1>>, <<Bool(TRUE)>>)}
D2 == ArraysOver(S2, 2) \cup ObjectsOver({A, N1}, S2, 2)
Crafted == { Obj(<<A, B>>, <<Arr(<<IntV(1), IntV(2), IntV(3)>>), Obj(<<A>>, <<Arr(<<>>)>>)>>),
             Arr(<<Arr(<<IntV(1), IntV(2)>>), Obj(<<N1, M1, P1>>, <<IntV(1), IntV(2), IntV(3)>>)>>),
             Obj(<<E, TLD, SL>>, <<IntV(0), Arr(<<Bool(FALSE)>>), Obj(<<E>>, <<Null>>)>>),
             Obj(<<N0, N1>>, <<Arr(<<IntV(0), IntV(1)>>), Str(A)>>),
             Arr(<<Bool(TRUE), IntV(1), Num(3), Str(N1)>>),
             Obj(<<A, M0, N0>>, <<Obj(<<X>>, <<Null>>), IntV(1), Arr(<<Obj(<<X, Y>>, <<Null, IntV(1)>>)>>)>>),
             \* members named with the pointer escape characters themselves, and a member whose name begins with a sibling's
             Obj(<<<<126, 49>>, SL, <<126, 48, 49>>>>, <<IntV(1), Arr(<<IntV(2)>>), IntV(3)>>),
             Obj(<<A, <<97, 98>>>>, <<IntV(1), Obj(<<A>>, <<Arr(<<>>)>>)>>),
             \* a member whose name reads as a percent-encoded character next to the member it would decode to (%41 and A):
             \* three ordinary characters unless the caller asks for URI decoding
             Obj(<<<<37, 52, 49>>, <<65>>>>, <<IntV(1), Arr(<<IntV(2)>>)>>) }
DocsSingle == D1 \cup D2 \cup Crafted
DocsSeq == { Obj(<<A, B>>, <<Arr(<<IntV(1), IntV(2)>>), Obj(<<A>>, <<Arr(<<>>)>>)>>),
             Arr(<<Arr(<<IntV(1)>>), Obj(<<N1>>, <<IntV(1)>>)>>),
             Obj(<<N1>>, <<Arr(<<Bool(TRUE), IntV(1)>>)>>),
             Arr(<<IntV(1), IntV(2)>>), Obj(<<>>, <<>>), Arr(<<>>) }
Docs == IF Universe = "single" THEN DocsSingle ELSE DocsSeq

\* (the last one is a string that reads as JSON text - "[1]": put at the root it is the document, a string, and nothing is below it)
Values(d) == {IntV(7), Bool(TRUE), IntV(1), Null, Arr(<<>>), Obj(<<A>>, <<Arr(<<IntV(1)>>)>>), Str(<<91, 49, 93>>)}

\* paths worth trying on the current document: every existing location, every
\* one-step extension of a container (append position, past the end, "-",
\* leading zero, new / look-alike member names), a step below a scalar
ExtTokens(v) ==
  IF v.t = "arr" THEN {Decimal(Len(v.xs)), Decimal(Len(v.xs) + 1), Dash, <<48>> \o Decimal(Len(v.xs)), A, M0}
       \* (negative array indices are a documented extension of the pointer
       \*  implementation and are kept out of the universe, DESIGN.md section 7)
  ELSE IF v.t = "obj" THEN {X, N1, N01, M1, Dash, M0, N0} \ Range(v.ks)
  ELSE {A, N0}
Existing(d) == {TokensOf(l) : l \in Range(LocsOf(d))}
Paths(d) == Existing(d) \cup UNION {{p \o <<t>> : t \in ExtTokens(Resolve(d, p))} : p \in Existing(d)}
             \cup {<<X, X>>}
Sources(d) == Existing(d) \cup {<<X>>} \cup (IF d.t = "arr" THEN {<<Dash>>, <<Decimal(Len(d.xs))>>} ELSE {})
              \cup {p \o <<N0>> : p \in {e \in Existing(d) : Resolve(d, e).t = "str"}}     \* a step below a string (a string is not an array of characters)

\* the value with every true / false replaced by 1 / 0 and the other way round, at any depth: equal to the host's
\* loose equality, different JSON values
RECURSIVE SwapBoolNum(_)
SwapBoolNum(v) == CASE v.t = "bool" -> IntV(IF v.b THEN 1 ELSE 0)
                    [] v.t = "num" -> (IF v.h \in {0, 2} THEN Bool(v.h = 2) ELSE v)
                    [] v.t = "arr" -> Arr([i \in 1..Len(v.xs) |-> SwapBoolNum(v.xs[i])])
                    [] v.t = "obj" -> Obj(v.ks, [i \in 1..Len(v.vs) |-> SwapBoolNum(v.vs[i])])
                    [] OTHER -> v

OpsOver(P, F, V, d) ==
       {MkOp("add", p, <<>>, v) : p \in P, v \in V}
  \cup {MkOp("remove", p, <<>>, Null) : p \in P}
  \cup {MkOp("replace", p, <<>>, v) : p \in P, v \in V}
  \cup {MkOp("move", p, f, Null) : p \in P, f \in F}
  \cup {MkOp("copy", p, f, Null) : p \in P, f \in F}
  \cup UNION {{MkOp("test", p, <<>>, v) : v \in {IntV(1), Bool(TRUE), Str(A), Obj(<<Y>>, <<Null>>), Obj(<<Y, X>>, <<IntV(1), Null>>)}
                                                  \cup (IF IsErr(Resolve(d, p)) THEN {} ELSE {Resolve(d, p), SwapBoolNum(Resolve(d, p))})} : p \in P}

OpsFor(d) == OpsOver(Paths(d), Sources(d), Values(d), d)

\* operations that are likely to succeed (used only to bias the random walk)
LikelyPaths(d) ==
  Existing(d) \cup UNION {LET v == Resolve(d, p) IN
                            IF v.t = "arr" THEN {p \o <<Decimal(Len(v.xs))>>, p \o <<Dash>>}
                            ELSE IF v.t = "obj" THEN {p \o <<t>> : t \in {X, N1} \ Range(v.ks)} ELSE {} : p \in Existing(d)}
LikelyOps(d) == OpsOver(LikelyPaths(d), Existing(d), Values(d), d)

Init == /\ doc0 \in Docs
        /\ doc = doc0
        /\ hist = <<>>

\* negative array indices are a documented extension of the pointer implementation and outside the
\* universe (DESIGN.md section 7); a move can turn a member name like "-1" into one, because removing
\* the source shifts the indices its target path goes through
IsNegIndex(tok) == Len(tok) >= 2 /\ tok[1] = 45 /\ tok[2] # 48 /\ \A i \in 2..Len(tok) : IsDigit(tok[i])    \* "-0" is not an index at all
NegIndexOnArray(d, path) == path # <<>> /\ IsNegIndex(Last(path)) /\ ~IsErr(Resolve(d, Front(path))) /\ Resolve(d, Front(path)).t = "arr"
UsesNegativeIndex(d, op) ==
  \/ NegIndexOnArray(d, op.path)
  \/ (op.op = "move" /\ ~IsErr(OpRemove(d, op.from)) /\ NegIndexOnArray(OpRemove(d, op.from), op.path))

Apply(op) ==
  /\ ~IsErr(doc)
  /\ ~UsesNegativeIndex(doc, op)
  /\ Len(hist) < MaxOps
  /\ doc' = ApplyOp(doc, op)
  /\ hist' = Append(hist, [op |-> op.op, path |-> PrintPtr(op.path), from |-> PrintPtr(op.from),
                           value |-> op.value, after |-> ApplyOp(doc, op)])
  /\ UNCHANGED doc0

Next == \E op \in OpsFor(doc) : Apply(op)
Spec == Init /\ [][Next]_vars

\* random walk for -simulate: one successor per step (TLC evaluates invariants on
\* every generated successor, so the choice is made inside the action); three
\* times out of four an operation that succeeds is preferred so that histories
\* get long enough to make later operations depend on earlier ones
\* a random element, drawn anew at every evaluation: the set mentions the state because TLC evaluates an expression
\* without variables once and for all (a walk would repeat one choice for ever)
Pick(S) == RandomElement(IF Len(hist) >= 0 THEN S ELSE {})
NextSim ==
  \E coin \in {Pick(1..4)} :
    \E op \in {Pick(IF coin = 1 THEN OpsFor(doc) ELSE LikelyOps(doc))} : Apply(op)

Terminal == IsErr(doc) \/ Len(hist) = MaxOps

\* ---- properties of the design (checked by TLC in every state) -------------
IsJson(v) == v.t \in {"null", "bool", "num", "str", "arr", "obj"}
TypeOK == (IsJson(doc) \/ IsErr(doc)) /\ IsJson(doc0)

\* operation algebra of RFC 6902 on the current document
Laws ==
  ~IsErr(doc) =>
    \A p \in Paths(doc) :
      LET r == Resolve(doc, p) IN
      /\ (~IsErr(r) /\ p # <<>>) =>
            /\ OpReplace(doc, p, IntV(7)) = SetAt(doc, p, IntV(7))
            /\ ~IsErr(OpRemove(doc, p))
            /\ IsErr(Resolve(OpRemove(doc, p), p)) \/ Resolve(doc, Front(p)).t = "arr"
            /\ OpTest(doc, p, r) = doc
            /\ OpMove(doc, p, p) = doc
            /\ JsonEq(Resolve(OpCopy(doc, p, p), p), r)
      /\ IsErr(r) => /\ IsErr(OpReplace(doc, p, IntV(7)))
                     /\ IsErr(OpRemove(doc, p))
                     /\ IsErr(OpTest(doc, p, IntV(1)))
      /\ LET a == OpAdd(doc, p, IntV(7)) IN
           ~IsErr(a) => (p = <<>> \/ Last(p) = Dash \/ Resolve(a, p) = IntV(7))
      \* add at index = length is the same as add at "-"
      /\ (p # <<>> /\ ~IsErr(Resolve(doc, Front(p))) /\ Resolve(doc, Front(p)).t = "arr"
            /\ Last(p) = Decimal(Len(Resolve(doc, Front(p)).xs)))
           => OpAdd(doc, p, IntV(7)) = OpAdd(doc, Front(p) \o <<Dash>>, IntV(7))
      \* a value can not be moved into one of its own children
      /\ \A q \in Paths(doc) : (IsPrefixOf(p, q) /\ p # q) => IsErr(OpMove(doc, p, q))
      \* test never changes the document
      /\ \A v \in {IntV(1), Bool(TRUE)} : OpTest(doc, p, v) \in {doc, Err("test"), Err("patch-or-test")}

\* deep equality used by test never identifies booleans and numbers
TestSeparatesBoolNum == ~JsonEq(Arr(<<Bool(TRUE)>>), Arr(<<IntV(1)>>)) /\ ~JsonEq(Bool(FALSE), IntV(0))

\* ---- export of behaviours (always true; prints terminal histories) -------
Export == Terminal /\ hist # <<>> => PrintT(ToJson([doc0 |-> doc0, hist |-> hist]))
=============================================================================
