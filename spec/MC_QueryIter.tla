--------------------------- MODULE MC_QueryIter ---------------------------
(***************************************************************************)
(* C12: the fluent Query wrapper as a state machine over match sequences.  *)
(* The match list is <<1, .., N>> (ids).  Every live query q owns rem[q],  *)
(* the matches it has still to produce; operations are list operations.    *)
(*   limit/head/first n : keep the first n      skip/drop n : remove first n*)
(*   tail/last n : keep the last n              take n : split off next n   *)
(*   tee k : k independent copies (the teed query must not be used again)   *)
(*   first_one/one, last_one, values/locations/items/pointers: observations;*)
(*   the query is a single-pass iterator, so what an observation has read   *)
(*   is no longer "remaining": first_one reads one match, last_one and the  *)
(*   views read everything; the query stays usable afterwards.              *)
(* Negative counts are refused (value error) and change nothing.            *)
(***************************************************************************)
EXTENDS Naturals, Integers, Sequences, FiniteSets, TLC, Json

CONSTANTS MaxN,     \* match lists of length 0..MaxN
          MaxOps    \* chain length

VARIABLES n, rem, live, hist
vars == <<n, rem, live, hist>>

Neg == 0 - 1
Counts == {Neg, 0, 1, 2, n, n + 1}
NoRet == [k |-> "none", ids |-> <<>>]

Min2(a, b) == IF a < b THEN a ELSE b
Max2(a, b) == IF a > b THEN a ELSE b
FirstN(s, c) == SubSeq(s, 1, Min2(c, Len(s)))
DropN(s, c) == SubSeq(s, Min2(c, Len(s)) + 1, Len(s))
LastN(s, c) == SubSeq(s, Max2(Len(s) - c, 0) + 1, Len(s))

NextId == Len(rem) + 1   \* queries are numbered in creation order; rem is a sequence indexed by id

Rec(op, q, c, ret, created) == [op |-> op, q |-> q, c |-> c, ret |-> ret, created |-> created]

Init == /\ n \in 0..MaxN
        /\ rem = << [i \in 1..n |-> i] >>
        /\ live = {1}
        /\ hist = <<>>

Refuse(op, q, c) ==       \* negative count: value error, nothing changes
  /\ c < 0
  /\ hist' = Append(hist, Rec(op, q, c, [k |-> "valueError", ids |-> <<>>], 0))
  /\ UNCHANGED <<n, rem, live>>

Slice(op, q, c) ==
  /\ c >= 0
  /\ rem' = [rem EXCEPT ![q] = CASE op = "limit" -> FirstN(@, c) [] op = "skip" -> DropN(@, c) [] op = "tail" -> LastN(@, c)]
  /\ hist' = Append(hist, Rec(op, q, c, NoRet, 0))
  /\ UNCHANGED <<n, live>>

Take(q, c) ==
  /\ c >= 0
  /\ rem' = Append([rem EXCEPT ![q] = DropN(@, c)], FirstN(rem[q], c))
  /\ live' = live \cup {NextId}
  /\ hist' = Append(hist, Rec("take", q, c, NoRet, 1))
  /\ UNCHANGED n

Tee(q, c) ==
  /\ c >= 0
  /\ rem' = rem \o [i \in 1..c |-> rem[q]]
  /\ live' = (live \ {q}) \cup (NextId..(NextId + c - 1))
  /\ hist' = Append(hist, Rec("tee", q, c, NoRet, c))
  /\ UNCHANGED n

Observe(op, q) ==
  /\ rem' = [rem EXCEPT ![q] = IF op = "first_one" /\ @ # <<>> THEN Tail(@) ELSE <<>>]
  /\ hist' = Append(hist, Rec(op, q, 0,
        CASE op = "first_one" -> (IF rem[q] = <<>> THEN [k |-> "nothing", ids |-> <<>>] ELSE [k |-> "match", ids |-> <<rem[q][1]>>])
          [] op = "last_one" -> (IF rem[q] = <<>> THEN [k |-> "nothing", ids |-> <<>>] ELSE [k |-> "match", ids |-> <<rem[q][Len(rem[q])]>>])
          [] OTHER -> [k |-> "list", ids |-> rem[q]], 0))
  /\ UNCHANGED <<n, live>>

Step(q) ==
  \/ \E op \in {"limit", "skip", "tail"}, c \in Counts : Refuse(op, q, c) \/ Slice(op, q, c)
  \/ \E c \in Counts : Refuse("take", q, c) \/ Take(q, c)
  \/ \E c \in {Neg, 0, 1, 2, 3} : Refuse("tee", q, c) \/ Tee(q, c)
  \/ \E op \in {"first_one", "last_one", "view"} : Observe(op, q)

Next == Len(hist) < MaxOps /\ \E q \in live : Step(q)

\* random walk (one successor per step)
\* a random element, drawn anew at every evaluation: the set mentions the state because TLC evaluates an expression
\* without variables once and for all (a walk would repeat one choice for ever)
Pick(S) == RandomElement(IF Len(hist) >= 0 THEN S ELSE {})
NextSim ==
  /\ Len(hist) < MaxOps /\ live # {}
  /\ \E q \in {Pick(live)} : \E kind \in {Pick(1..10)} : \E c \in {Pick(Counts)} :
       CASE kind <= 4 -> (\E op \in {Pick({"limit", "skip", "tail"})} : Refuse(op, q, c) \/ Slice(op, q, c))
         [] kind <= 6 -> (Refuse("take", q, c) \/ Take(q, c))
         [] kind <= 8 -> (\E k \in {Pick({Neg, 0, 1, 2, 3})} : Refuse("tee", q, k) \/ Tee(q, k))
         [] OTHER -> (\E op \in {Pick({"first_one", "last_one", "view"})} : Observe(op, q))
Spec == Init /\ [][Next]_vars

\* ---- properties --------------------------------------------------------------
\* an observation never gives a match twice: what it returned is gone from the query
ReadOnce == [][(hist' # hist /\ hist'[Len(hist')].ret.k \in {"match", "list"}) =>
                 LET h == hist'[Len(hist')] IN \A i \in 1..Len(h.ret.ids) : \A j \in 1..Len(rem'[h.q]) : rem'[h.q][j] # h.ret.ids[i]]_vars
Full == [i \in 1..n |-> i]
IsContiguous(s) == \A i \in 1..(Len(s) - 1) : s[i + 1] = s[i] + 1
\* every query always holds a contiguous slice of the full match list
SliceInv == \A q \in 1..Len(rem) : IsContiguous(rem[q]) /\ \A i \in 1..Len(rem[q]) : rem[q][i] \in 1..n
\* take conserves: what was split off followed by what remains is what was there
TakeConserves == [][(hist' # hist /\ hist'[Len(hist')].op = "take" /\ hist'[Len(hist')].ret.k = "none") =>
                     LET q == hist'[Len(hist')].q IN rem'[Len(rem')] \o rem'[q] = rem[q]]_vars
\* a refused operation changes nothing
RefusalIsNoOp == [][(hist' # hist /\ hist'[Len(hist')].ret.k = "valueError") => (rem' = rem /\ live' = live)]_vars
\* tee copies are equal to what remained
TeeCopies == [][(hist' # hist /\ hist'[Len(hist')].op = "tee" /\ hist'[Len(hist')].ret.k = "none") =>
                 \A i \in (Len(rem) + 1)..Len(rem') : rem'[i] = rem[hist'[Len(hist')].q]]_vars

Terminal == Len(hist) = MaxOps \/ live = {}
Export == Terminal => PrintT(ToJson([n |-> n, hist |-> hist, rem |-> rem, live |-> [q \in 1..Len(rem) |-> q \in live]]))
=============================================================================
