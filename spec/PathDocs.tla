------------------------------ MODULE PathDocs ------------------------------
(***************************************************************************)
(* The document universe for the JSONPath properties: hand-shaped values   *)
(* that contain the distinguishing cases the properties name (arrays of    *)
(* every length 0..6 for slices, strings and scalars reachable by every    *)
(* selector kind, mixed nestings three deep, member names that are empty,  *)
(* non-ASCII, non-BMP, quotes, a trailing backslash, control characters,   *)
(* reserved words, digits only).                                           *)
(***************************************************************************)
EXTENDS JsonValue

n_a == <<97>>  n_b == <<98>>  n_c == <<99>>  n_e == <<>>  n_1 == <<49>>  n_0 == <<48>>  n_m1 == <<45, 49>>  n_01 == <<48, 49>>
n_ee == <<233>>  n_emo == <<128512>>  n_sq == <<39>>  n_dq == <<34>>  n_abs == <<97, 92>>  n_anb == <<97, 10, 98>>
n_and == <<97, 110, 100>>  n_sp == <<32>>  n_ab_ == <<97, 32, 98>>  n_tld == <<126>>  n_sl == <<47>>  n_true == <<116, 114, 117, 101>>
n_t1 == <<126, 49>>  n_at1b == <<97, 126, 49, 98>>  n_t0 == <<126, 48>>  n_big == <<49, 56, 52, 52, 54, 55, 52, 52, 48, 55, 51, 55, 48, 57, 53, 53, 49, 54, 49, 54>>
n_del == <<97, 127>>  n_aemo == <<97, 128512>>
n_bsdq == <<97, 92, 34, 98>>      \* a backslash immediately followed by a double quote
\* names that begin with a word the lexer knows (nil, in, or, and, not, true, None, contains) and go on
n_nilx == <<110, 105, 108, 120>>  n_inx == <<105, 110, 120>>  n_orx == <<111, 114, 120>>  n_andx == <<97, 110, 100, 120>>  n_notx == <<110, 111, 116, 120>>
n_1ar2 == <<49, 1634>>  n_us == <<97, 31>>  n_pct == <<37, 52, 49>>  n_A == <<65>>  n_m0 == <<45, 48>>
n_p1 == <<43, 49>>  n_aplusb == <<97, 43, 98>>  n_asb == <<97, 32, 98>>  n_dash == <<45>>  n_vt == <<97, 11>>  n_lfend == <<97, 10>>  n_ecomb == <<101, 769>>      \* U+000B (escaped with a hex letter), a final line feed, e + combining acute (not NFC)
n_andemo == <<97, 110, 100, 128512>>  n_oremo == <<111, 114, 128512>>      \* a lexer word followed by a non-ASCII symbol (not a letter): still one name
n_truex == <<116, 114, 117, 101, 120>>  n_Nonex == <<78, 111, 110, 101, 120>>  n_containsx == <<99, 111, 110, 116, 97, 105, 110, 115, 120>>
n_c1 == <<1>>  n_bs == <<92>>  n_x == <<120>>  n_y == <<121>>  n_k == <<107>>

S(str) == Str(str)
Ints(n) == Arr([i \in 1..n |-> IntV(i - 1)])

\* names that differ only in a run of blanks, a name that begins with a blank, names that read as format directives
n_xy1 == <<120, 32, 121>>  n_xy2 == <<120, 32, 32, 121>>  n_lsp == <<32, 97>>  n_pd == <<37, 100>>  n_pp == <<37, 37>>
SpecialNames == <<n_ee, n_emo, n_sq, n_dq, n_abs, n_anb, n_and, n_sp, n_ab_, n_tld, n_sl, n_true, n_c1, n_bs, n_e, n_1, n_t1, n_at1b, n_t0, n_big, n_del, n_aemo, n_bsdq, n_nilx, n_inx, n_orx, n_andx, n_notx, n_truex, n_Nonex, n_containsx, n_andemo, n_oremo, n_1ar2, n_us, n_pct, n_A, n_m0, n_vt, n_lfend, n_ecomb, n_dash, n_p1, n_aplusb, n_xy1, n_xy2, n_lsp>>

DocSeq == <<
  Ints(0), Ints(1), Ints(2), Ints(3), Ints(4), Ints(5), Ints(6),
  Obj(<<n_a, n_b, n_e, n_1>>, <<Ints(3), S(<<104, 101, 108, 108, 111>>), IntV(1), IntV(2)>>),
  Obj(<<n_a, n_b>>, <<Obj(<<n_b>>, <<Arr(<<Obj(<<n_a>>, <<IntV(1)>>), Arr(<<IntV(2), Obj(<<n_b>>, <<IntV(3)>>)>>)>>)>>),
                      Arr(<<Arr(<<>>), Obj(<<>>, <<>>)>>)>>),
  Arr(<<S(<<97, 98>>), Obj(<<n_a>>, <<S(<<99, 100>>)>>), Arr(<<S(<<101, 102>>)>>), Null, Bool(TRUE), Num(3)>>),
  Obj(SpecialNames, [i \in 1..Len(SpecialNames) |-> IntV(i)]),
  Obj(<<n_a, n_b>>, <<Obj(<<n_a>>, <<Obj(<<n_a>>, <<IntV(1)>>)>>), Obj(<<n_a>>, <<IntV(2)>>)>>),
  IntV(5), Bool(TRUE), Null,
  Obj(<<n_0, n_1, n_m1, n_01>>, <<S(n_x), S(n_y), S(n_c), S(n_b)>>),
  Arr(<<Ints(2), Arr(<<IntV(2), IntV(3), IntV(4)>>), Arr(<<>>)>>),
  Arr(<<Obj(<<n_a, n_b>>, <<IntV(1), IntV(2)>>), Obj(<<n_a>>, <<IntV(3)>>), Obj(<<n_b>>, <<IntV(4)>>)>>),
  Obj(<<n_b, n_a>>, <<Arr(<<Obj(<<n_ee>>, <<Arr(<<IntV(0)>>)>>)>>), Obj(<<n_abs, n_a>>, <<Obj(<<n_sq>>, <<Null>>), S(n_a)>>)>>),
  Arr(<<Arr(<<Arr(<<IntV(1)>>)>>), Obj(<<n_a>>, <<Arr(<<Obj(<<n_a>>, <<Arr(<<>>)>>)>>)>>)>>),
  \* equal elements at several positions of one array (and a boolean / number look-alike between them)
  Arr(<<IntV(1), IntV(2), IntV(1), Bool(TRUE), IntV(2), Arr(<<>>), Null, Arr(<<>>), Null>>),
  \* containers below members whose names read as format directives or begin with a blank (the locations below them carry those names)
  Obj(<<n_pd, n_pp, n_lsp>>, <<Arr(<<IntV(1), Obj(<<n_pp>>, <<IntV(2)>>)>>), Obj(<<n_a>>, <<IntV(3)>>), Arr(<<IntV(4)>>)>>),
  \* equal containers at several places (the harness also hands it over with each group of equal containers being ONE object)
  Obj(<<n_a, n_b, n_x>>, <<Obj(<<n_y>>, <<Arr(<<IntV(1)>>)>>), Obj(<<n_y>>, <<Arr(<<IntV(1)>>)>>), Arr(<<Obj(<<n_y>>, <<Arr(<<IntV(1)>>)>>), Arr(<<IntV(1)>>)>>)>>)
>>

\* per-document node table: every node's location
NodeTable(d) == LocsOf(d)
=============================================================================
