------------------------------- MODULE Parser -------------------------------
(***************************************************************************)
(* The query parser as a function from token sequences to syntax trees -   *)
(* a transcription of the implementation's recursive-descent / precedence- *)
(* climbing parser (one operator per parse method), including the checks   *)
(* it makes while parsing (uncompared literals, comparability, function    *)
(* signatures, index ranges).  It is implementation-shaped on purpose:     *)
(* Trace_Parser validates recorded (tokens, tree / error) pairs of the     *)
(* real lexer+parser against it, and MC_Parser relates it to the RFC-level *)
(* modules: parsing the tokens of a rendered program gives the program     *)
(* back (ToQuery o Compile o tokens-of-Render = identity up to redundant   *)
(* parentheses), and its verdict agrees with Typing.tla.                   *)
(*                                                                         *)
(* Tokens are [k, v, h, bad]: kind, text (code points), numeric value in   *)
(* halves (number tokens), and bad = the token's text cannot be converted  *)
(* (undecodable escape or raw control character in a string, number out of *)
(* range, regular expression that does not compile) - conversions are the  *)
(* host's, not the parser's.                                               *)
(*                                                                         *)
(* Position convention (the implementation's): a parse operator is given   *)
(* the index of its first token and returns the index of its LAST token.   *)
(*                                                                         *)
(* Deliberate departures of the implementation from RFC 9535 that this     *)
(* module states (all found by transcribing, all accepted by the code):    *)
(*   - operators of equal precedence associate to the right, and a         *)
(*     comparison may be an operand of a comparison (1 == 2 == 3);         *)
(*   - "!" may precede a comparison's left operand (!@.a == 1 is           *)
(*     (!@.a) == 1);                                                       *)
(*   - function arguments and list literals may end with a comma;          *)
(*   - a blank may stand for the dot between shorthand names (@.a b);      *)
(*   - the current key, undefined and list literals may be used as tests.  *)
(***************************************************************************)
EXTENDS Naturals, Integers, Sequences, FiniteSets, TLC, SequencesExt

CONSTANTS MinIdx, MaxIdx      \* the environment's integer limits (MinIdx is given as a magnitude: -MinIdx .. MaxIdx)

EOFTok == [k |-> "EOF", v |-> <<>>, h |-> 0, bad |-> FALSE]
Tok(ts, i) == IF i >= 1 /\ i <= Len(ts) THEN ts[i] ELSE EOFTok
K(ts, i) == Tok(ts, i).k

Ok(pos, node) == [ok |-> TRUE, pos |-> pos, node |-> node, err |-> "none"]
Fail(kind) == [ok |-> FALSE, pos |-> 0, node |-> <<>>, err |-> kind]

\* ---- numbers in index / slice position ---------------------------------------------------
IsDigitC(c) == c >= 48 /\ c <= 57
RECURSIVE DecVal(_)
DecVal(s) == IF s = <<>> THEN 0 ELSE DecVal(Front(s)) * 10 + (Last(s) - 48)
AllDigits(s) == s # <<>> /\ \A j \in 1..Len(s) : IsDigitC(s[j])
IsPlainInt(s) == IF s # <<>> /\ s[1] = 45 THEN AllDigits(Tail(s)) ELSE AllDigits(s)
IntVal(s) == IF s[1] = 45 THEN 0 - DecVal(Tail(s)) ELSE DecVal(s)
InRange(n) == n >= 0 - MinIdx /\ n <= MaxIdx
LeadingZero(s) == (Len(s) > 1 /\ s[1] = 48) \/ (Len(s) >= 2 /\ s[1] = 45 /\ s[2] = 48)

\* ---- precedences and operator tables -------------------------------------------------------
LOWEST == 1
Prec(kind) == CASE kind = "OR" -> 3 [] kind = "AND" -> 4
                [] kind \in {"EQ", "GE", "GT", "LE", "LG", "LT", "NE", "RE"} -> 5
                [] kind \in {"IN", "CONTAINS"} -> 6 [] kind = "NOT" -> 7 [] OTHER -> LOWEST
Binary == {"AND", "CONTAINS", "EQ", "GE", "GT", "IN", "LE", "LG", "LT", "NE", "OR", "RE"}
OpOf(kind) == CASE kind = "AND" -> "&&" [] kind = "OR" -> "||" [] kind = "CONTAINS" -> "contains" [] kind = "IN" -> "in"
                [] kind = "EQ" -> "==" [] kind = "NE" -> "!=" [] kind = "LG" -> "<>" [] kind = "LT" -> "<" [] kind = "LE" -> "<="
                [] kind = "GT" -> ">" [] kind = "GE" -> ">=" [] kind = "RE" -> "=~"
ComparisonOps == {"==", ">=", ">", "<=", "<", "!=", "<>", "=~"}
LiteralOps == ComparisonOps \cup {"<>", "in", "contains"}

\* ---- the function registry (the five typed standard functions and the four names of the two non-standard ones) ---
Sig(f) == CASE f = <<108,101,110,103,116,104>> -> [params |-> <<"value">>, ret |-> "value", known |-> TRUE]          \* length
            [] f = <<99,111,117,110,116>> -> [params |-> <<"nodes">>, ret |-> "value", known |-> TRUE]               \* count
            [] f = <<109,97,116,99,104>> -> [params |-> <<"value", "value">>, ret |-> "logical", known |-> TRUE]      \* match
            [] f = <<115,101,97,114,99,104>> -> [params |-> <<"value", "value">>, ret |-> "logical", known |-> TRUE]  \* search
            [] f = <<118,97,108,117,101>> -> [params |-> <<"nodes">>, ret |-> "value", known |-> TRUE]               \* value
            \* the non-standard functions every environment registers: isinstance / is (nodes, value) -> logical, typeof / type (nodes) -> value
            [] f \in {<<105,115,105,110,115,116,97,110,99,101>>, <<105,115>>} -> [params |-> <<"nodes", "value">>, ret |-> "logical", known |-> TRUE]
            [] f \in {<<116,121,112,101,111,102>>, <<116,121,112,101>>} -> [params |-> <<"nodes">>, ret |-> "value", known |-> TRUE]
            [] OTHER -> [params |-> <<>>, ret |-> "none", known |-> FALSE]

\* ---- node predicates used by the checks made while parsing ---------------------------------
IsLiteralNode(n) == n.k \in {"str", "num", "bool", "re"}
SingularSels(sels) == \A j \in 1..Len(sels) :
    \/ sels[j].k \in {"name", "index"}
    \/ (sels[j].k = "list" /\ Len(sels[j].items) = 1 /\ sels[j].items[1].k \in {"name", "index"})
RetType(n) == IF n.k = "fn" THEN Sig(n.f).ret ELSE "none"
\* "" when the expression may stand as a test, else the error it raises
Uncompared(n) == IF n.k = "fn" /\ RetType(n) = "value" THEN "type"
                 ELSE IF IsLiteralNode(n) \/ n.k = "nil" THEN "syntax" ELSE ""
NonComparable(n) == IF n.k = "path" /\ ~SingularSels(n.sels) THEN "type"
                    ELSE IF n.k = "fn" /\ Sig(n.f).known /\ RetType(n) # "value" THEN "type" ELSE ""
ArgOK(a, typ) ==
  CASE typ = "value" -> \/ a.k \in {"nil", "undef", "str", "num", "bool", "re", "list", "key"}
                        \/ (a.k = "path" /\ SingularSels(a.sels))
                        \/ RetType(a) = "value"
    [] typ = "logical" -> a.k \in {"path", "infix"}
    [] typ = "nodes" -> a.k = "path" \/ RetType(a) = "nodes"
\* "" or the error raised by the signature check of f(args)
SigCheck(f, args) ==
  IF ~Sig(f).known THEN "name"
  ELSE IF Len(args) # Len(Sig(f).params) THEN "type"
  ELSE IF \E j \in 1..Len(args) : ~ArgOK(args[j], Sig(f).params[j]) THEN "type" ELSE ""

\* ---- the parser ------------------------------------------------------------------------------
RECURSIVE ParsePath(_, _, _), ParseList(_, _, _), ParseExpr(_, _, _), ExprLoop(_, _, _), ParseInfix(_, _, _),
          ParsePrimary(_, _), ParseFn(_, _, _), ParseListLit(_, _, _), ParseArg(_, _), ArgLoop(_, _), ParseFnArgs(_, _, _, _)

\* one slice bound
SliceBound(tok) == IF tok.v = <<>> THEN [ok |-> TRUE, err |-> "none", b |-> <<>>]
                   ELSE IF ~IsPlainInt(tok.v) THEN [ok |-> FALSE, err |-> "syntax", b |-> <<>>]       \* a lone "-"
                   ELSE [ok |-> TRUE, err |-> "none", b |-> <<IntVal(tok.v)>>]
\* slice at i (SLICE_START), i+1 must be SLICE_STOP, i+2 SLICE_STEP; last token i+2
ParseSlice(ts, i) ==
  IF K(ts, i + 1) # "SLICE_STOP" \/ K(ts, i + 2) # "SLICE_STEP" THEN Fail("syntax")
  ELSE LET a == SliceBound(ts[i])  b == SliceBound(ts[i + 1])  c == SliceBound(ts[i + 2]) IN
       IF ~a.ok \/ ~b.ok \/ ~c.ok THEN Fail("syntax")
       ELSE IF \E x \in {a.b, b.b, c.b} : x # <<>> /\ ~InRange(x[1]) THEN Fail("index")
       ELSE Ok(i + 2, [k |-> "slice", lo |-> a.b, hi |-> b.b, st |-> c.b])

\* selectors of a path from position i on; pos = the first token that is NOT part of the path
ParsePath(ts, i, acc) ==
  LET kind == K(ts, i) IN
  CASE kind \in {"PROP", "BARE_PROPERTY"} -> ParsePath(ts, i + 1, Append(acc, [k |-> "name", s |-> ts[i].v]))
    [] kind = "SLICE_START" -> LET r == ParseSlice(ts, i) IN IF r.ok THEN ParsePath(ts, r.pos + 1, Append(acc, r.node)) ELSE r
    [] kind = "WILD" -> ParsePath(ts, i + 1, Append(acc, [k |-> "wild"]))
    [] kind = "KEYS" -> ParsePath(ts, i + 1, Append(acc, [k |-> "keys"]))
    [] kind = "DDOT" -> ParsePath(ts, i + 1, Append(acc, [k |-> "ddot"]))
    [] kind = "LBRACKET" -> LET r == ParseList(ts, i + 1, <<>>) IN IF r.ok THEN ParsePath(ts, r.pos + 1, Append(acc, r.node)) ELSE r
    [] kind = "ILLEGAL" -> Fail("syntax")
    [] OTHER -> Ok(i, acc)

\* after an item whose last token is c: separator handling; gives the position of the next item or of the closing bracket
AfterItem(ts, c) ==
  IF K(ts, c + 1) \in {"EOF", "ILLEGAL"} THEN 0
  ELSE IF K(ts, c + 1) = "RBRACKET" THEN c + 1
  ELSE IF K(ts, c + 1) # "COMMA" THEN 0
  ELSE IF K(ts, c + 2) = "RBRACKET" THEN 0          \* trailing comma
  ELSE c + 2

\* bracketed selection: j is the position of the next item (or of the closing bracket); pos = the closing bracket
ParseList(ts, j, items) ==
  LET kind == K(ts, j)
      cont(c, item) == LET n == AfterItem(ts, c) IN IF n = 0 THEN Fail("syntax") ELSE ParseList(ts, n, Append(items, item))
  IN
  CASE kind = "RBRACKET" -> IF items = <<>> THEN Fail("syntax") ELSE Ok(j, [k |-> "list", items |-> items])
    [] kind = "INT" -> IF LeadingZero(ts[j].v) \/ ~IsPlainInt(ts[j].v) THEN Fail("syntax")
                       ELSE IF ~InRange(IntVal(ts[j].v)) THEN Fail("index")
                       ELSE cont(j, [k |-> "index", i |-> IntVal(ts[j].v)])
    [] kind = "BARE_PROPERTY" -> cont(j, [k |-> "name", s |-> ts[j].v])
    [] kind = "KEYS" -> cont(j, [k |-> "keys"])
    [] kind \in {"DOUBLE_QUOTE_STRING", "SINGLE_QUOTE_STRING"} -> IF ts[j].bad THEN Fail("syntax") ELSE cont(j, [k |-> "name", s |-> ts[j].v])
    [] kind = "SLICE_START" -> LET r == ParseSlice(ts, j) IN IF r.ok THEN cont(r.pos, r.node) ELSE r
    [] kind = "WILD" -> cont(j, [k |-> "wild"])
    [] kind = "FILTER" -> LET r == ParseExpr(ts, j + 1, LOWEST) IN
                          IF ~r.ok THEN r
                          ELSE IF Uncompared(r.node) # "" THEN Fail(Uncompared(r.node))
                          ELSE cont(r.pos, [k |-> "filter", e |-> r.node])
    [] OTHER -> Fail("syntax")

\* parse_filter_selector: a primary, then infix operators while they bind at least as tightly as prec
ParseExpr(ts, i, prec) == LET l == ParsePrimary(ts, i) IN IF l.ok THEN ExprLoop(ts, l, prec) ELSE l
ExprLoop(ts, left, prec) ==
  LET pk == K(ts, left.pos + 1) IN
  IF pk = "ILLEGAL" THEN Fail("syntax")
  ELSE IF pk \in {"EOF", "RBRACKET"} \/ Prec(pk) < prec THEN left
  ELSE IF pk \notin Binary THEN left
  ELSE LET r == ParseInfix(ts, left.pos + 1, left.node) IN IF r.ok THEN ExprLoop(ts, r, prec) ELSE r

\* o is the operator's position
ParseInfix(ts, o, lnode) ==
  LET op == OpOf(K(ts, o))
      r == ParseExpr(ts, o + 1, Prec(K(ts, o)))
  IN IF ~r.ok THEN r
     ELSE IF op \in ComparisonOps /\ NonComparable(lnode) # "" THEN Fail("type")
     ELSE IF op \in ComparisonOps /\ NonComparable(r.node) # "" THEN Fail("type")
     ELSE IF op \notin LiteralOps /\ Uncompared(lnode) # "" THEN Fail(Uncompared(lnode))
     ELSE IF op \notin LiteralOps /\ Uncompared(r.node) # "" THEN Fail(Uncompared(r.node))
     ELSE Ok(r.pos, [k |-> "infix", op |-> op, l |-> lnode, r |-> r.node])

SubPath(ts, i, root) == LET r == ParsePath(ts, i + 1, <<>>) IN
                        IF r.ok THEN Ok(r.pos - 1, [k |-> "path", root |-> root, sels |-> r.node]) ELSE r
NumNode(tok) == [k |-> "num", h |-> tok.h]

ParsePrimary(ts, i) ==
  LET kind == K(ts, i) IN
  CASE kind \in {"DOUBLE_QUOTE_STRING", "SINGLE_QUOTE_STRING"} -> IF ts[i].bad THEN Fail("syntax") ELSE Ok(i, [k |-> "str", s |-> ts[i].v])
    [] kind = "ROOT" -> SubPath(ts, i, "$")
    [] kind = "FAKE_ROOT" -> SubPath(ts, i, "^")
    [] kind = "SELF" -> SubPath(ts, i, "@")
    [] kind = "FILTER_CONTEXT" -> SubPath(ts, i, "_")
    [] kind = "TRUE" -> Ok(i, [k |-> "bool", b |-> TRUE])
    [] kind = "FALSE" -> Ok(i, [k |-> "bool", b |-> FALSE])
    [] kind \in {"INT", "FLOAT"} -> IF ts[i].bad THEN Fail("syntax") ELSE Ok(i, NumNode(ts[i]))
    [] kind = "FUNCTION" -> ParseFn(ts, i, i + 1)
    [] kind = "KEY" -> Ok(i, [k |-> "key"])
    [] kind = "LBRACKET" -> ParseListLit(ts, i + 1, <<>>)
    [] kind = "LPAREN" -> LET r == ParseExpr(ts, i + 1, LOWEST) IN
                          IF ~r.ok THEN r ELSE IF K(ts, r.pos + 1) = "RPAREN" THEN Ok(r.pos + 1, r.node) ELSE Fail("syntax")
    [] kind \in {"MISSING", "UNDEFINED"} -> Ok(i, [k |-> "undef"])
    [] kind \in {"NIL", "NONE", "NULL"} -> Ok(i, [k |-> "nil"])
    [] kind = "NOT" -> LET r == ParseExpr(ts, i + 1, 7) IN
                       IF ~r.ok THEN r ELSE IF Uncompared(r.node) # "" THEN Fail(Uncompared(r.node))
                       ELSE Ok(r.pos, [k |-> "prefix", e |-> r.node])
    [] kind = "RE_PATTERN" -> IF ts[i].bad THEN Fail("syntax")
                              ELSE IF K(ts, i + 1) = "RE_FLAGS" THEN Ok(i + 1, [k |-> "re", s |-> ts[i].v, flags |-> ts[i + 1].v])
                              ELSE Ok(i, [k |-> "re", s |-> ts[i].v, flags |-> <<>>])
    [] OTHER -> Fail("syntax")

\* list literal: c is the position of the next item or of the closing bracket
ParseListLit(ts, c, items) ==
  LET kind == K(ts, c)
      item == CASE kind \in {"TRUE", "FALSE"} -> [k |-> "bool", b |-> kind = "TRUE"]
                [] kind \in {"INT", "FLOAT"} -> NumNode(ts[c])
                [] kind \in {"NIL", "NONE", "NULL"} -> [k |-> "nil"]
                [] OTHER -> [k |-> "str", s |-> Tok(ts, c).v]
      next == IF K(ts, c + 1) = "RBRACKET" THEN c + 1 ELSE IF K(ts, c + 1) = "COMMA" THEN c + 2 ELSE 0
  IN IF kind = "RBRACKET" THEN Ok(c, [k |-> "list", items |-> items])
     ELSE IF kind \notin {"TRUE", "FALSE", "INT", "FLOAT", "NIL", "NONE", "NULL", "DOUBLE_QUOTE_STRING", "SINGLE_QUOTE_STRING"} \/ Tok(ts, c).bad THEN Fail("syntax")
     ELSE IF next = 0 THEN Fail("syntax")
     ELSE ParseListLit(ts, next, Append(items, item))

\* a function argument: a restricted primary, then any infix operators (of any precedence)
ArgKinds == {"DOUBLE_QUOTE_STRING", "SINGLE_QUOTE_STRING", "FAKE_ROOT", "ROOT", "SELF", "FILTER_CONTEXT", "TRUE", "FALSE", "FLOAT", "INT",
             "FUNCTION", "KEY", "NIL", "NONE", "NULL"}
ParseArg(ts, c) == IF K(ts, c) \notin ArgKinds THEN Fail("syntax")
                   ELSE LET p == ParsePrimary(ts, c) IN IF p.ok THEN ArgLoop(ts, p) ELSE p
ArgLoop(ts, left) == IF K(ts, left.pos + 1) = "ILLEGAL" THEN Fail("syntax")
                     ELSE IF K(ts, left.pos + 1) \notin Binary THEN left
                     ELSE LET r == ParseInfix(ts, left.pos + 1, left.node) IN IF r.ok THEN ArgLoop(ts, r) ELSE r
\* i: the FUNCTION token; c: position of the next argument or of the closing parenthesis
ParseFn(ts, i, c) == ParseFnArgs(ts, i, c, <<>>)
ParseFnArgs(ts, i, c, args) ==
  IF K(ts, c) = "RPAREN"
  THEN (IF SigCheck(ts[i].v, args) # "" THEN Fail(SigCheck(ts[i].v, args)) ELSE Ok(c, [k |-> "fn", f |-> ts[i].v, args |-> args]))
  ELSE LET a == ParseArg(ts, c) IN
       IF ~a.ok THEN a
       ELSE IF K(ts, a.pos + 1) = "RPAREN" THEN ParseFnArgs(ts, i, a.pos + 1, Append(args, a.node))
       ELSE IF K(ts, a.pos + 1) = "COMMA" THEN ParseFnArgs(ts, i, a.pos + 2, Append(args, a.node))
       ELSE Fail("syntax")

\* ---- a whole query text: optional root identifier, path, then | / & operands ----------------------
\* one operand starting at i; pos = the token after it (EOF, UNION or INTERSECT)
ParseOperand(ts, i) ==
  LET fake == K(ts, i) = "FAKE_ROOT"
      start == IF K(ts, i) \in {"ROOT", "FAKE_ROOT"} THEN i + 1 ELSE i
      r == ParsePath(ts, start, <<>>)
  IN IF ~r.ok THEN r
     ELSE IF K(ts, r.pos) \notin {"EOF", "INTERSECT", "UNION"} THEN Fail("syntax")
     ELSE Ok(r.pos, [fake |-> fake, sels |-> r.node])

RECURSIVE CompoundLoop(_, _, _)
CompoundLoop(ts, p, acc) ==
  IF K(ts, p) = "EOF" THEN Ok(p, acc)
  ELSE IF K(ts, p + 1) \in {"EOF"} THEN Fail("syntax")                 \* trailing operator
  ELSE LET r == ParseOperand(ts, p + 1) IN
       IF ~r.ok THEN r ELSE CompoundLoop(ts, r.pos, Append(acc, [op |-> IF K(ts, p) = "UNION" THEN "|" ELSE "&", q |-> r.node]))

Compile(ts) ==
  LET f == ParseOperand(ts, 1) IN
  IF ~f.ok THEN f
  ELSE LET rest == CompoundLoop(ts, f.pos, <<>>) IN
       IF ~rest.ok THEN rest ELSE Ok(rest.pos, [first |-> f.node, rest |-> rest.node])

Verdict(ts) == LET r == Compile(ts) IN IF r.ok THEN [ok |-> TRUE, err |-> "none", tree |-> r.node] ELSE [ok |-> FALSE, err |-> r.err, tree |-> <<>>]
=============================================================================
