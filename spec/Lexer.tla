-------------------------------- MODULE Lexer --------------------------------
(***************************************************************************)
(* The lexer as data: an ordered list of token rules, and tokenization as  *)
(* a machine over a position in the query text - at every position the     *)
(* first rule (in list order) that matches wins, and what it matches is     *)
(* consumed (the semantics of one big regular-expression alternation).      *)
(*                                                                         *)
(* The environment's eight identifier spellings are inserted into the rule *)
(* list sorted by decreasing length (stable), after the rules for strings, *)
(* numbers, `..`, `&&`, `||` and before the punctuation and name rules.    *)
(* That order is what makes prefix-related spellings ("%" and "%%") safe;  *)
(* with Order = "shortest-first" TLC finds the shadowing counterexample.   *)
(*                                                                         *)
(* Modelled rules (the ones query texts without regex literals and slice   *)
(* lists can reach): quoted strings, function names, dot properties,       *)
(* floats, integers, DDOT, AND, OR, identifier tokens, WILD, FILTER,       *)
(* brackets, comma, comparison operators, NOT, bare names, parentheses,    *)
(* blank space, ILLEGAL.                                                   *)
(***************************************************************************)
EXTENDS Naturals, Integers, Sequences, FiniteSets, TLC, SequencesExt

IsDig(c) == c >= 48 /\ c <= 57
IsLower(c) == c >= 97 /\ c <= 122
IsAlpha_(c) == (c >= 65 /\ c <= 90) \/ IsLower(c) \/ c = 95
KeyFirst(c) == IsAlpha_(c) \/ c >= 128
KeyChar(c) == KeyFirst(c) \/ IsDig(c) \/ c = 45
IsBlank(c) == c \in {32, 10, 9, 13}

\* position after the longest run of characters of a class starting at p (one operator per class:
\* recursive operators cannot take operator arguments)
RECURSIVE DigitsEnd(_, _), KeyEnd(_, _), BlankEnd(_, _), FnEnd(_, _), StrEnd(_, _, _)
DigitsEnd(t, p) == IF p <= Len(t) /\ IsDig(t[p]) THEN DigitsEnd(t, p + 1) ELSE p
KeyEnd(t, p) == IF p <= Len(t) /\ KeyChar(t[p]) THEN KeyEnd(t, p + 1) ELSE p
BlankEnd(t, p) == IF p <= Len(t) /\ IsBlank(t[p]) THEN BlankEnd(t, p + 1) ELSE p
FnEnd(t, p) == IF p <= Len(t) /\ (IsLower(t[p]) \/ IsDig(t[p]) \/ t[p] = 95) THEN FnEnd(t, p + 1) ELSE p
\* end of a quoted string body: position of the closing quote, 0 if unterminated
StrEnd(t, p, q) == IF p > Len(t) THEN 0
                   ELSE IF t[p] = q THEN p
                   ELSE IF t[p] = 92 THEN (IF p + 1 > Len(t) THEN 0 ELSE StrEnd(t, p + 2, q))
                   ELSE StrEnd(t, p + 1, q)

HasAt(t, p, lit) == p + Len(lit) - 1 <= Len(t) /\ SubSeq(t, p, p + Len(lit) - 1) = lit

\* a rule is [kind, match] where match(t, p) is the position after the match, or 0
Match(rule, t, p, toks) ==
  CASE rule.k = "lit" -> IF HasAt(t, p, rule.text) THEN p + Len(rule.text) ELSE 0
    [] rule.k = "dq" -> IF t[p] = 34 /\ StrEnd(t, p + 1, 34) # 0 THEN StrEnd(t, p + 1, 34) + 1 ELSE 0
    [] rule.k = "sq" -> IF t[p] = 39 /\ StrEnd(t, p + 1, 39) # 0 THEN StrEnd(t, p + 1, 39) + 1 ELSE 0
    [] rule.k = "func" -> IF IsLower(t[p]) /\ FnEnd(t, p + 1) > p + 1 /\ FnEnd(t, p + 1) <= Len(t) /\ t[FnEnd(t, p + 1)] = 40
                          THEN BlankEnd(t, FnEnd(t, p + 1) + 1) ELSE 0
    [] rule.k = "dotprop" -> IF t[p] = 46 /\ p + 1 <= Len(t) /\ KeyFirst(t[p + 1]) THEN KeyEnd(t, p + 2) ELSE 0
    [] rule.k = "int" -> LET s == IF t[p] = 45 THEN p + 1 ELSE p IN
                         IF s <= Len(t) /\ IsDig(t[s]) /\ (DigitsEnd(t, s) > Len(t) \/ ~(IsAlpha_(t[DigitsEnd(t, s)]) \/ t[DigitsEnd(t, s)] = 46))
                         THEN DigitsEnd(t, s) ELSE 0
    [] rule.k = "key" -> IF KeyFirst(t[p]) THEN KeyEnd(t, p + 1) ELSE 0
    [] rule.k = "skip" -> IF IsBlank(t[p]) THEN BlankEnd(t, p) ELSE IF t[p] = 46 /\ ~(p + 1 <= Len(t) /\ t[p + 1] = 46) THEN p + 1 ELSE 0
    [] rule.k = "any" -> p + 1

Lit(kind, text) == [kind |-> kind, k |-> "lit", text |-> text]
R(kind, k) == [kind |-> kind, k |-> k, text |-> <<>>]

\* insertion sort of the identifier rules by length: decreasing (the implementation) or increasing (the wrong design)
RECURSIVE InsertBy(_, _, _), SortBy(_, _)
InsertBy(x, s, desc) == IF s = <<>> THEN <<x>>
                        ELSE IF (IF desc THEN Len(x.text) > Len(Head(s).text) ELSE Len(x.text) < Len(Head(s).text)) THEN <<x>> \o s
                        ELSE <<Head(s)>> \o InsertBy(x, Tail(s), desc)
SortBy(s, desc) == IF s = <<>> THEN <<>> ELSE InsertBy(Last(s), SortBy(Front(s), desc), desc)
\* (inserting from the back keeps the original order among equal lengths: a stable sort)

IdentRules(tok) == << Lit("ROOT", tok.root), Lit("FAKE_ROOT", tok.fake), Lit("SELF", tok.self), Lit("KEY", tok.key),
                      Lit("UNION", tok.union), Lit("INTERSECT", tok.inter), Lit("FILTER_CONTEXT", tok.ctx), Lit("KEYS", tok.keys) >>

Rules(tok, order) ==
  << R("DOUBLE_QUOTE_STRING", "dq"), R("SINGLE_QUOTE_STRING", "sq"), R("FUNCTION", "func"), R("PROP", "dotprop"), R("INT", "int"),
     Lit("DDOT", <<46, 46>>), Lit("AND", <<38, 38>>), Lit("OR", <<124, 124>>) >>
  \o (IF order = "as-given" THEN IdentRules(tok) ELSE SortBy(IdentRules(tok), order = "longest-first"))
  \o << Lit("WILD", <<42>>), Lit("FILTER", <<63>>), Lit("LBRACKET", <<91>>), Lit("RBRACKET", <<93>>), Lit("COMMA", <<44>>),
        Lit("EQ", <<61, 61>>), Lit("NE", <<33, 61>>), Lit("LG", <<60, 62>>), Lit("LE", <<60, 61>>), Lit("GE", <<62, 61>>), Lit("RE", <<61, 126>>),
        Lit("LT", <<60>>), Lit("GT", <<62>>), Lit("NOT", <<33>>), R("BARE_PROPERTY", "key"), Lit("LPAREN", <<40>>), Lit("RPAREN", <<41>>),
        R("SKIP", "skip"), R("ILLEGAL", "any") >>

\* the first rule that matches at p
FirstRule(rules, t, p) == CHOOSE i \in 1..Len(rules) : Match(rules[i], t, p, <<>>) # 0 /\ \A j \in 1..(i - 1) : Match(rules[j], t, p, <<>>) = 0

RECURSIVE Tokenize(_, _, _)
\* kinds of the tokens of t from position p on (SKIP produces no token; ILLEGAL ends the scan)
Tokenize(rules, t, p) ==
  IF p > Len(t) THEN <<>>
  ELSE LET i == FirstRule(rules, t, p) IN
       IF rules[i].kind = "ILLEGAL" THEN <<"ILLEGAL">>
       ELSE (IF rules[i].kind = "SKIP" THEN <<>> ELSE <<rules[i].kind>>) \o Tokenize(rules, t, Match(rules[i], t, p, <<>>))
Kinds(text, tok, order) == Tokenize(Rules(tok, order), text, 1)
=============================================================================
