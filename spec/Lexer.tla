-------------------------------- MODULE Lexer --------------------------------
(***************************************************************************)
(* The lexer as data: an ordered list of token rules, and tokenization as  *)
(* a machine over a position in the query text - at every position the     *)
(* first rule (in list order) that matches wins, and what it matches is     *)
(* consumed (the semantics of one big regular-expression alternation).      *)
(*                                                                         *)
(* The environment's eight identifier spellings are inserted into the rule *)
(* list sorted by decreasing length (stable), after the rules for strings, *)
(* regular expressions, slices, functions, numbers, `..`, `&&`, `||` and   *)
(* before the punctuation, keyword and name rules.  That order is what     *)
(* makes prefix-related spellings ("%" and "%%") safe; with                *)
(* Order = "shortest-first" TLC finds the shadowing counterexample.        *)
(*                                                                         *)
(* The rule list is the implementation's, complete: quoted strings,        *)
(* /regex/flags literals, slices (three tokens), function names, dot       *)
(* properties, floats, integers (with exponent; a negative exponent makes  *)
(* a FLOAT token), DDOT, AND / OR (symbols and words), the identifier      *)
(* tokens, WILD, FILTER, the keywords (in, true, false, nil, null, none,   *)
(* contains, undefined, missing - all three nothing-words give NIL),       *)
(* brackets, comma, comparison operators, NOT, bare names, parentheses,    *)
(* blank space and the lone dot (skipped), ILLEGAL.  Tokens carry the raw  *)
(* text of their value group.                                              *)
(***************************************************************************)
EXTENDS Naturals, Integers, Sequences, FiniteSets, TLC, SequencesExt

IsDig(c) == c >= 48 /\ c <= 57
IsLower(c) == c >= 97 /\ c <= 122
IsAlpha_(c) == (c >= 65 /\ c <= 90) \/ IsLower(c) \/ c = 95
KeyFirst(c) == IsAlpha_(c) \/ c >= 128
KeyChar(c) == KeyFirst(c) \/ IsDig(c) \/ c = 45
IsBlank(c) == c \in {32, 10, 9, 13}
IsSpace(c) == c \in {32, 10, 9, 13, 11, 12}          \* the host's \s, on ASCII
\* the host's \w: letters, digits, underscore; beyond ASCII every alphanumeric character - the universes' non-ASCII
\* characters are letters or digits except those listed
NonWordHigh == {128512, 167, 163, 8364, 162, 164, 172, 166}
IsWord(c) == IsAlpha_(c) \/ IsDig(c) \/ (c >= 128 /\ c \notin NonWordHigh)
\* \b after a word character at position e - 1: the next character is not a word character
Boundary(t, e) == e > Len(t) \/ ~IsWord(t[e])

\* position after the longest run of characters of a class starting at p (one operator per class:
\* recursive operators cannot take operator arguments)
RECURSIVE DigitsEnd(_, _), KeyEnd(_, _), BlankEnd(_, _), SpaceEnd(_, _), FnEnd(_, _), StrEnd(_, _, _), ReEnd(_, _), FlagsEnd(_, _)
DigitsEnd(t, p) == IF p <= Len(t) /\ IsDig(t[p]) THEN DigitsEnd(t, p + 1) ELSE p
KeyEnd(t, p) == IF p <= Len(t) /\ KeyChar(t[p]) THEN KeyEnd(t, p + 1) ELSE p
BlankEnd(t, p) == IF p <= Len(t) /\ IsBlank(t[p]) THEN BlankEnd(t, p + 1) ELSE p
SpaceEnd(t, p) == IF p <= Len(t) /\ IsSpace(t[p]) THEN SpaceEnd(t, p + 1) ELSE p
FnEnd(t, p) == IF p <= Len(t) /\ (IsLower(t[p]) \/ IsDig(t[p]) \/ t[p] = 95) THEN FnEnd(t, p + 1) ELSE p
FlagsEnd(t, p) == IF p <= Len(t) /\ t[p] \in {97, 105, 109, 115} THEN FlagsEnd(t, p + 1) ELSE p
\* end of a quoted string body: position of the closing quote, 0 if unterminated
StrEnd(t, p, q) == IF p > Len(t) THEN 0
                   ELSE IF t[p] = q THEN p
                   ELSE IF t[p] = 92 THEN (IF p + 1 > Len(t) THEN 0 ELSE StrEnd(t, p + 2, q))
                   ELSE StrEnd(t, p + 1, q)
\* end of a regular-expression body: position of the closing slash, 0 if there is none
ReEnd(t, p) == IF p > Len(t) THEN 0
               ELSE IF t[p] = 47 THEN p
               ELSE IF t[p] = 92 THEN (IF p + 1 > Len(t) THEN 0 ELSE ReEnd(t, p + 2))
               ELSE ReEnd(t, p + 1)

HasAt(t, p, lit) == p + Len(lit) - 1 <= Len(t) /\ SubSeq(t, p, p + Len(lit) - 1) = lit
SignEnd(t, p) == IF p <= Len(t) /\ t[p] = 45 THEN p + 1 ELSE p
\* [eE][+-]?\d+ at p: position after it, or p when there is no complete exponent
ExpEnd(t, p) == IF p <= Len(t) /\ t[p] \in {101, 69}
                THEN LET s == IF p + 1 <= Len(t) /\ t[p + 1] \in {43, 45} THEN p + 2 ELSE p + 1 IN
                     IF s <= Len(t) /\ IsDig(t[s]) THEN DigitsEnd(t, s) ELSE p
                ELSE p
\* -?\d+([eE][+-]?\d+)?\b : with the exponent if that ends at a word boundary, else without it, else no match
IntEnd(t, p) == LET s == SignEnd(t, p) IN
                IF ~(s <= Len(t) /\ IsDig(t[s])) THEN 0
                ELSE LET d == DigitsEnd(t, s)  e == ExpEnd(t, d) IN
                     IF e > d /\ Boundary(t, e) THEN e ELSE IF Boundary(t, d) THEN d ELSE 0
\* -?\d+\.\d*([eE][+-]?\d+)?
FloatEnd(t, p) == LET s == SignEnd(t, p) IN
                  IF ~(s <= Len(t) /\ IsDig(t[s])) THEN 0
                  ELSE LET d == DigitsEnd(t, s) IN
                       IF d <= Len(t) /\ t[d] = 46 THEN ExpEnd(t, DigitsEnd(t, d + 1)) ELSE 0
\* (-?\d*)\s*:\s*(-?\d*)\s*(:\s*(-?\d*))? - the positions of its parts, or ok = FALSE
SliceParts(t, p) ==
  LET a1 == DigitsEnd(t, SignEnd(t, p))          \* end of start
      c1 == SpaceEnd(t, a1) IN                   \* the first colon
  IF ~(c1 <= Len(t) /\ t[c1] = 58) THEN [ok |-> FALSE]
  ELSE LET b0 == SpaceEnd(t, c1 + 1)
           b1 == DigitsEnd(t, SignEnd(t, b0))    \* end of stop
           c2 == SpaceEnd(t, b1) IN
       IF c2 <= Len(t) /\ t[c2] = 58
       THEN LET s0 == SpaceEnd(t, c2 + 1)  s1 == DigitsEnd(t, SignEnd(t, s0)) IN
            [ok |-> TRUE, start |-> SubSeq(t, p, a1 - 1), stop |-> SubSeq(t, b0, b1 - 1), step |-> SubSeq(t, s0, s1 - 1), end |-> s1]
       ELSE [ok |-> TRUE, start |-> SubSeq(t, p, a1 - 1), stop |-> SubSeq(t, b0, b1 - 1), step |-> <<>>, end |-> c2]
\* the end of a keyword: a word boundary that is not followed by a character from U+0080 up (every such character may
\* continue a name, word character or not)
KeywordEnd(t, e) == e > Len(t) \/ (t[e] < 128 /\ ~IsWord(t[e]))
WordAt(t, p, w) == HasAt(t, p, w) /\ KeywordEnd(t, p + Len(w))
\* a keyword whose first letter may be a capital
CapWordAt(t, p, w) == WordAt(t, p, w) \/ WordAt(t, p, <<w[1] - 32>> \o Tail(w))

\* a rule is [kind, k, text]; Match gives the position after the match, or 0
Match(rule, t, p, toks) ==
  CASE rule.k = "lit" -> IF HasAt(t, p, rule.text) THEN p + Len(rule.text) ELSE 0
    [] rule.k = "word" -> IF WordAt(t, p, rule.text) THEN p + Len(rule.text) ELSE 0
    [] rule.k = "capword" -> IF CapWordAt(t, p, rule.text) THEN p + Len(rule.text) ELSE 0
    [] rule.k = "litorword" -> IF HasAt(t, p, rule.text) THEN p + Len(rule.text) ELSE IF WordAt(t, p, rule.word) THEN p + Len(rule.word) ELSE 0
    [] rule.k = "dq" -> IF t[p] = 34 /\ StrEnd(t, p + 1, 34) # 0 THEN StrEnd(t, p + 1, 34) + 1 ELSE 0
    [] rule.k = "sq" -> IF t[p] = 39 /\ StrEnd(t, p + 1, 39) # 0 THEN StrEnd(t, p + 1, 39) + 1 ELSE 0
    [] rule.k = "regex" -> IF t[p] = 47 /\ ReEnd(t, p + 1) > p + 1 THEN FlagsEnd(t, ReEnd(t, p + 1) + 1) ELSE 0
    [] rule.k = "slice" -> IF SliceParts(t, p).ok THEN SliceParts(t, p).end ELSE 0
    [] rule.k = "func" -> IF IsLower(t[p]) /\ FnEnd(t, p + 1) > p + 1 /\ FnEnd(t, p + 1) <= Len(t) /\ t[FnEnd(t, p + 1)] = 40
                          THEN SpaceEnd(t, FnEnd(t, p + 1) + 1) ELSE 0
    [] rule.k = "dotprop" -> IF t[p] = 46 /\ p + 1 <= Len(t) /\ KeyFirst(t[p + 1]) THEN KeyEnd(t, p + 2) ELSE 0
    [] rule.k = "float" -> FloatEnd(t, p)
    [] rule.k = "int" -> IntEnd(t, p)
    [] rule.k = "key" -> IF KeyFirst(t[p]) THEN KeyEnd(t, p + 1) ELSE 0
    [] rule.k = "skip" -> IF IsBlank(t[p]) THEN BlankEnd(t, p) ELSE IF t[p] = 46 /\ ~(p + 1 <= Len(t) /\ t[p + 1] = 46) THEN p + 1 ELSE 0
    [] rule.k = "any" -> p + 1

Lit(kind, text) == [kind |-> kind, k |-> "lit", text |-> text, word |-> <<>>]
Word(kind, text) == [kind |-> kind, k |-> "word", text |-> text, word |-> <<>>]
CapWord(kind, text) == [kind |-> kind, k |-> "capword", text |-> text, word |-> <<>>]
LitOrWord(kind, text, word) == [kind |-> kind, k |-> "litorword", text |-> text, word |-> word]
R(kind, k) == [kind |-> kind, k |-> k, text |-> <<>>, word |-> <<>>]

\* insertion sort of the identifier rules by length: decreasing (the implementation) or increasing (the wrong design)
RECURSIVE InsertBy(_, _, _), SortBy(_, _)
InsertBy(x, s, desc) == IF s = <<>> THEN <<x>>
                        ELSE IF (IF desc THEN Len(x.text) > Len(Head(s).text) ELSE Len(x.text) < Len(Head(s).text)) THEN <<x>> \o s
                        ELSE <<Head(s)>> \o InsertBy(x, Tail(s), desc)
SortBy(s, desc) == IF s = <<>> THEN <<>> ELSE InsertBy(Last(s), SortBy(Front(s), desc), desc)
\* (inserting from the back keeps the original order among equal lengths: a stable sort)

IdentRules(tok) == << Lit("ROOT", tok.root), Lit("FAKE_ROOT", tok.fake), Lit("SELF", tok.self), Lit("KEY", tok.key),
                      Lit("UNION", tok.union), Lit("INTERSECT", tok.inter), Lit("FILTER_CONTEXT", tok.ctx), Lit("KEYS", tok.keys) >>

W_and == <<97, 110, 100>>  W_or == <<111, 114>>  W_not == <<110, 111, 116>>  W_in == <<105, 110>>
W_true == <<116, 114, 117, 101>>  W_false == <<102, 97, 108, 115, 101>>  W_nil == <<110, 105, 108>>  W_null == <<110, 117, 108, 108>>  W_none == <<110, 111, 110, 101>>
W_contains == <<99, 111, 110, 116, 97, 105, 110, 115>>  W_undefined == <<117, 110, 100, 101, 102, 105, 110, 101, 100>>  W_missing == <<109, 105, 115, 115, 105, 110, 103>>

Rules(tok, order) ==
  << R("DOUBLE_QUOTE_STRING", "dq"), R("SINGLE_QUOTE_STRING", "sq"), R("RE_PATTERN", "regex"), R("LSLICE", "slice"), R("FUNCTION", "func"),
     R("PROP", "dotprop"), R("FLOAT", "float"), R("INT", "int"),
     Lit("DDOT", <<46, 46>>), LitOrWord("AND", <<38, 38>>, W_and), LitOrWord("OR", <<124, 124>>, W_or) >>
  \o (IF order = "as-given" THEN IdentRules(tok) ELSE SortBy(SelectSeq(IdentRules(tok), LAMBDA r : r.text # <<>>), order = "longest-first"))
  \o << Lit("WILD", <<42>>), Lit("FILTER", <<63>>), Word("IN", W_in), CapWord("TRUE", W_true), CapWord("FALSE", W_false), CapWord("NIL", W_nil),
        CapWord("NIL", W_null), CapWord("NIL", W_none), Word("CONTAINS", W_contains), Word("UNDEFINED", W_undefined), Word("MISSING", W_missing),
        Lit("LBRACKET", <<91>>), Lit("RBRACKET", <<93>>), Lit("COMMA", <<44>>),
        Lit("EQ", <<61, 61>>), Lit("NE", <<33, 61>>), Lit("LG", <<60, 62>>), Lit("LE", <<60, 61>>), Lit("GE", <<62, 61>>), Lit("RE", <<61, 126>>),
        Lit("LT", <<60>>), Lit("GT", <<62>>), LitOrWord("NOT", <<33>>, W_not), R("BARE_PROPERTY", "key"), Lit("LPAREN", <<40>>), Lit("RPAREN", <<41>>),
        R("SKIP", "skip"), R("ILLEGAL", "any") >>
\* (the NOT rule is `not\b` or `!` - the word first; both orders give the same match since neither is a prefix of the other)

\* the first rule that matches at p (the last rule matches any character)
RECURSIVE FirstFrom(_, _, _, _)
FirstFrom(rules, t, p, i) == IF Match(rules[i], t, p, <<>>) # 0 THEN i ELSE FirstFrom(rules, t, p, i + 1)
FirstRule(rules, t, p) == FirstFrom(rules, t, p, 1)

T(kind, v) == [k |-> kind, v |-> v]
\* the tokens a rule emits for its match of t[p .. e - 1]
Emit(rule, t, p, e) ==
  CASE rule.kind \in {"DOUBLE_QUOTE_STRING", "SINGLE_QUOTE_STRING"} -> <<T(rule.kind, SubSeq(t, p + 1, e - 2))>>
    [] rule.kind = "RE_PATTERN" -> LET c == ReEnd(t, p + 1) IN <<T("RE_PATTERN", SubSeq(t, p + 1, c - 1)), T("RE_FLAGS", SubSeq(t, c + 1, e - 1))>>
    [] rule.kind = "LSLICE" -> LET s == SliceParts(t, p) IN <<T("SLICE_START", s.start), T("SLICE_STOP", s.stop), T("SLICE_STEP", s.step)>>
    [] rule.kind = "FUNCTION" -> <<T("FUNCTION", SubSeq(t, p, FnEnd(t, p + 1) - 1))>>
    [] rule.kind = "PROP" -> <<T("PROP", SubSeq(t, p + 1, e - 1))>>
    [] rule.kind = "INT" -> LET d == DigitsEnd(t, SignEnd(t, p)) IN      \* an exponent with a minus sign makes it a FLOAT token
                            <<T(IF e > d + 1 /\ t[d + 1] = 45 THEN "FLOAT" ELSE "INT", SubSeq(t, p, e - 1))>>
    [] rule.kind = "SKIP" -> <<>>
    [] OTHER -> <<T(rule.kind, SubSeq(t, p, e - 1))>>

RECURSIVE Tokenize(_, _, _)
\* the tokens of t from position p on (ILLEGAL ends the scan, as a token of that kind)
Tokenize(rules, t, p) ==
  IF p > Len(t) THEN <<>>
  ELSE LET i == FirstRule(rules, t, p)
           e == Match(rules[i], t, p, <<>>) IN
       IF rules[i].kind = "ILLEGAL" THEN <<T("ILLEGAL", <<>>)>>
       ELSE Emit(rules[i], t, p, e) \o Tokenize(rules, t, e)
Tokens(text, tok, order) == Tokenize(Rules(tok, order), text, 1)
Kinds(text, tok, order) == LET ts == Tokens(text, tok, order) IN [i \in 1..Len(ts) |-> ts[i].k]
=============================================================================
