------------------------------ MODULE Render ------------------------------
(***************************************************************************)
(* Surface syntax: rendering of a query AST to query text (a sequence of   *)
(* code points) in every spelling the grammar allows.  A style record      *)
(* chooses among the alternatives:                                         *)
(*   q      quote character for names and string literals (39 or 34)       *)
(*   sp     the blank-space text inserted wherever the grammar permits it  *)
(*   dot    use dot shorthand for names and wildcards where the grammar does *)
(*   paren  "min" (by precedence) | "full" (redundant parentheses)         *)
(*   uni    escape non-ASCII and control characters as \uXXXX              *)
(*   num    "plain" | "float" (1 -> 1.0) | "exp" (1 -> 1e0) number literals*)
(*   ext    non-standard spellings: words (and/or/not), ne ("<>"), nil,    *)
(*          tru, fls, undef, bare (unquoted names in brackets), rootless   *)
(*   tok    spellings of the environment's identifier tokens               *)
(***************************************************************************)
EXTENDS JsonPath

T(s) == s
DefaultTok == [root |-> <<36>>, self |-> <<64>>, key |-> <<35>>, ctx |-> <<95>>, keys |-> <<126>>,
               fake |-> <<94>>, union |-> <<124>>, inter |-> <<38>>]
StdStyle == [q |-> 39, sp |-> <<>>, dot |-> FALSE, paren |-> "min", uni |-> FALSE, num |-> "plain",
             words |-> FALSE, ne |-> <<33, 61>>, nil |-> <<110, 117, 108, 108>>, tru |-> <<116, 114, 117, 101>>,
             fls |-> <<102, 97, 108, 115, 101>>, undef |-> <<117, 110, 100, 101, 102, 105, 110, 101, 100>>,
             bare |-> FALSE, rootless |-> FALSE, tok |-> DefaultTok,
             every |-> FALSE]                                  \* every character of a quoted name or string written \uXXXX (upper-case hex)

Hex(d) == IF d < 10 THEN 48 + d ELSE 87 + d          \* lower-case hex digit
Hex4(c) == <<Hex(c \div 4096), Hex((c \div 256) % 16), Hex((c \div 16) % 16), Hex(c % 16)>>
U16(c) == <<92, 117>> \o Hex4(c)
\* \uXXXX, as a surrogate pair beyond the BMP
UEsc(c) == IF c < 65536 THEN U16(c) ELSE U16(55296 + ((c - 65536) \div 1024)) \o U16(56320 + ((c - 65536) % 1024))

EscChar(c, q, uni) ==
  CASE c = q -> <<92, q>>
    [] c = 92 -> <<92, 92>>
    [] c = 8 -> <<92, 98>> [] c = 12 -> <<92, 102>> [] c = 10 -> <<92, 110>>
    [] c = 13 -> <<92, 114>> [] c = 9 -> <<92, 116>>
    [] c < 32 -> U16(c)
    [] c > 126 /\ uni -> UEsc(c)
    [] OTHER -> <<c>>
Quote(t, q, uni) == <<q>> \o Flat([i \in 1..Len(t) |-> EscChar(t[i], q, uni)]) \o <<q>>
\* the legal but non-canonical spelling: every character as \uXXXX with upper-case hex digits (a surrogate pair beyond the BMP)
HexU(d) == IF d < 10 THEN 48 + d ELSE 55 + d
U16U(c) == <<92, 117, HexU(c \div 4096), HexU((c \div 256) % 16), HexU((c \div 16) % 16), HexU(c % 16)>>
UEscU(c) == IF c < 65536 THEN U16U(c) ELSE U16U(55296 + ((c - 65536) \div 1024)) \o U16U(56320 + ((c - 65536) % 1024))
QuoteSt(t, st) == IF st.every THEN <<st.q>> \o Flat([i \in 1..Len(t) |-> UEscU(t[i])]) \o <<st.q>> ELSE Quote(t, st.q, st.uni)

\* RFC 9535 2.7 normalized-path escaping (single quotes; \b \f \n \r \t, \u00xx lower-case hex)
NormalQuote(t) == Quote(t, 39, FALSE)

JoinWith(seqs, sep) == IF seqs = <<>> THEN <<>> ELSE FoldLeft(LAMBDA acc, s : acc \o sep \o s, seqs[1], Tail(seqs))
OptInt(o) == IF o = <<>> THEN <<>> ELSE Decimal(o[1])

\* member-name-shorthand: name-first *name-char
IsAlpha(c) == (c >= 65 /\ c <= 90) \/ (c >= 97 /\ c <= 122)
NameFirst(c) == IsAlpha(c) \/ c = 95 \/ (c >= 128 /\ c <= 55295) \/ (c >= 57344 /\ c <= 1114111)
NameChar(c) == NameFirst(c) \/ IsDigit(c)
ShorthandOK(s) == Len(s) >= 1 /\ NameFirst(s[1]) /\ \A i \in 2..Len(s) : NameChar(s[i])
\* words the implementation reserves (documented departure: not spellable after "..")
Reserved == { <<97,110,100>>, <<111,114>>, <<110,111,116>>, <<116,114,117,101>>, <<102,97,108,115,101>>, <<110,117,108,108>>,
              <<110,105,108>>, <<110,111,110,101>>, <<105,110>>, <<99,111,110,116,97,105,110,115>>,
              <<117,110,100,101,102,105,110,101,100>>, <<109,105,115,115,105,110,103>>,
              <<84,114,117,101>>, <<70,97,108,115,101>>, <<78,117,108,108>>, <<78,105,108>>, <<78,111,110,101>> }

RenderNum(h, num) ==
  IF num = "Eneg" THEN Decimal(h * 5) \o <<69, 45, 49>>       \* h/2 = (5h) x 10^-1, spelled with an upper-case exponent marker
  ELSE IF num = "Epos" /\ h % 2 # 0 THEN Decimal(h * 5) \o <<69, 45, 49>>
  ELSE IF h % 2 = 0 THEN Decimal(h \div 2) \o (CASE num = "float" -> <<46, 48>> [] num = "exp" -> <<101, 48>> [] num = "Epos" -> <<69, 48>> [] OTHER -> <<>>)
  ELSE (IF h < 0 THEN <<45>> ELSE <<>>) \o Digits((IF h < 0 THEN -h ELSE h) \div 2) \o <<46, 53>>
RenderLit(v, st) ==
  CASE v.t = "null" -> st.nil [] v.t = "bool" -> (IF v.b THEN st.tru ELSE st.fls)
    [] v.t = "num" -> RenderNum(v.h, st.num) [] v.t = "str" -> QuoteSt(v.s, st)

OpText(op, st) == CASE op = "==" -> <<61, 61>> [] op = "!=" -> st.ne [] op = "<>" -> <<60, 62>> [] op = "<" -> <<60>>
                   [] op = "<=" -> <<60, 61>> [] op = ">" -> <<62>> [] op = ">=" -> <<62, 61>>
                   [] op = "in" -> <<105, 110>> [] op = "contains" -> <<99, 111, 110, 116, 97, 105, 110, 115>>
                   [] op = "=~" -> <<61, 126>>
FnName(f) == CASE f = "length" -> <<108,101,110,103,116,104>> [] f = "count" -> <<99,111,117,110,116>>
               [] f = "value" -> <<118,97,108,117,101>> [] f = "match" -> <<109,97,116,99,104>>
               [] f = "search" -> <<115,101,97,114,99,104>> [] f = "nosuch" -> <<110,111,115,117,99,104>>

AndText(st) == IF st.words THEN <<32, 97, 110, 100, 32>> ELSE st.sp \o <<38, 38>> \o st.sp
OrText(st) == IF st.words THEN <<32, 111, 114, 32>> ELSE st.sp \o <<124, 124>> \o st.sp
NotText(st) == IF st.words THEN <<110, 111, 116, 32>> ELSE <<33>> \o st.sp

RECURSIVE RenderSegs(_, _), RenderSel(_, _), RenderExpr(_, _, _), RenderOperand(_, _), RenderQ(_, _, _)

RenderSel(s, st) ==
  CASE s.k = "name" -> IF st.bare /\ ShorthandOK(s.s) /\ s.s \notin Reserved THEN s.s ELSE QuoteSt(s.s, st)
    [] s.k = "index" -> Decimal(s.i)
    [] s.k = "wild" -> <<42>>
    [] s.k = "keys" -> st.tok.keys
    [] s.k = "slice" -> OptInt(s.lo) \o st.sp \o <<58>> \o st.sp \o OptInt(s.hi) \o
                        (IF s.st = <<>> THEN <<>> ELSE st.sp \o <<58>> \o st.sp \o OptInt(s.st))
    [] s.k = "filter" -> <<63>> \o st.sp \o RenderExpr(s.e, st, 0)
    [] s.k = "raw" -> s.text          \* defect injection (C07): a selector given as literal text

RenderSeg(seg, st) ==
  LET one == Len(seg.sels) = 1
      s1 == seg.sels[1]
      dots == IF seg.desc THEN <<46, 46>> ELSE <<46>>
  IN IF st.dot /\ one /\ s1.k = "name" /\ ShorthandOK(s1.s) /\ ~(seg.desc /\ s1.s \in Reserved) THEN dots \o s1.s
     ELSE IF st.dot /\ one /\ s1.k = "wild" THEN dots \o <<42>>
     ELSE IF st.dot /\ one /\ s1.k = "keys" THEN dots \o st.tok.keys
     ELSE (IF seg.desc THEN <<46, 46>> ELSE <<>>) \o <<91>> \o st.sp \o
          JoinWith([j \in 1..Len(seg.sels) |-> RenderSel(seg.sels[j], st)], st.sp \o <<44>> \o st.sp) \o st.sp \o <<93>>

RenderSegs(segs, st) == Flat([j \in 1..Len(segs) |-> st.sp \o RenderSeg(segs[j], st)])

RootText(r, st) == CASE r = "$" -> st.tok.root [] r = "@" -> st.tok.self [] r = "_" -> st.tok.ctx [] r = "^" -> st.tok.fake

\* top: a top-level query may omit its root identifier in the rootless style
RenderQ(q, st, top) ==
  IF top /\ st.rootless /\ q.root = "$" /\ q.segs # <<>> /\ q.segs[1].sels[1].k = "name" /\ Len(q.segs[1].sels) = 1
        /\ ShorthandOK(q.segs[1].sels[1].s) /\ ~q.segs[1].desc /\ q.segs[1].sels[1].s \notin Reserved
  THEN q.segs[1].sels[1].s \o RenderSegs(Tail(q.segs), [st EXCEPT !.dot = TRUE])
  \* (a query without its root identifier may also begin with the keys selector: `~` for `$.~`)
  ELSE IF top /\ st.rootless /\ q.root = "$" /\ q.segs # <<>> /\ Len(q.segs[1].sels) = 1 /\ q.segs[1].sels[1].k = "keys" /\ ~q.segs[1].desc
  THEN st.tok.keys \o RenderSegs(Tail(q.segs), [st EXCEPT !.dot = TRUE])
  ELSE RootText(q.root, st) \o RenderSegs(q.segs, st)

RenderArgs(args, st) == <<40>> \o st.sp \o JoinWith([j \in 1..Len(args) |-> RenderOperand(args[j], st)], st.sp \o <<44>> \o st.sp) \o st.sp \o <<41>>

RenderOperand(x, st) ==
  CASE x.k = "lit" -> RenderLit(x.v, st)
    [] x.k = "q" -> RenderQ(x.q, st, FALSE)
    [] x.k = "fn" -> FnName(x.f) \o RenderArgs(x.args, st)
    [] x.k = "key" -> st.tok.key
    [] x.k = "undef" -> st.undef
    [] x.k = "list" -> <<91>> \o JoinWith([j \in 1..Len(x.items) |-> RenderLit(x.items[j], st)], <<44>> \o st.sp) \o <<93>>
    [] x.k = "re" -> IF x.lit THEN <<47>> \o PatternText(x.re) \o <<47>> \o (IF x.ic THEN <<105>> ELSE <<>>)
                     ELSE Quote(PatternText(x.re), st.q, st.uni)
    [] x.k = "raw" -> x.text      \* defect injection (C07): an operand given as literal text
    [] x.k = "expr" -> RenderExpr(x.e, st, 0)   \* a logical expression in argument position

\* prec: 0 top / inside ||, 1 inside &&, 2 operand of !
RenderExpr(e, st, prec) ==
  LET paren(s) == <<40>> \o st.sp \o s \o st.sp \o <<41>>
      full == st.paren = "full" IN
  CASE e.k = "or" -> LET s == RenderExpr(e.l, st, 0) \o OrText(st) \o RenderExpr(e.r, st, 0) IN
                     IF prec > 0 \/ full THEN paren(s) ELSE s
    [] e.k = "and" -> LET s == RenderExpr(e.l, st, 1) \o AndText(st) \o RenderExpr(e.r, st, 1) IN
                      IF prec > 1 \/ full THEN paren(s) ELSE s
    [] e.k = "not" -> IF e.e.k \in {"test", "ftest"} /\ ~full THEN NotText(st) \o RenderExpr(e.e, st, 2)
                      ELSE NotText(st) \o paren(RenderExpr(e.e, st, 0))
    [] e.k = "test" -> RenderQ(e.q, st, FALSE)
    [] e.k = "ftest" -> FnName(e.f) \o RenderArgs(e.args, st)
    [] e.k = "cmp" -> LET s == RenderOperand(e.l, st) \o (IF e.op \in {"in", "contains"} THEN <<32>> ELSE st.sp) \o OpText(e.op, st)
                                \o (IF e.op \in {"in", "contains"} THEN <<32>> ELSE st.sp) \o RenderOperand(e.r, st) IN
                      IF prec > 1 \/ (full /\ prec > 0) THEN paren(s) ELSE s
    [] e.k = "paren" -> paren(RenderExpr(e.e, st, 0))     \* explicit redundant parentheses
    [] e.k = "rawexpr" -> e.text                          \* defect injection (C07)
    [] e.k = "litexpr" -> RenderLit(e.v, st)              \* a literal that is not compared (C07: must be refused)

Render(q, st) == RenderQ(q, st, TRUE)

\* compound queries: first and a sequence of [op, q]
RenderCompound(first, rest, st) ==
  Render(first, st) \o Flat([j \in 1..Len(rest) |-> <<32>> \o (IF rest[j].op = "|" THEN st.tok.union ELSE st.tok.inter) \o <<32>> \o Render(rest[j].q, st)])

\* ---- RFC 9535 2.7 normalized paths ------------------------------------------
NormPath(loc) == <<36>> \o Flat([i \in 1..Len(loc) |-> IF loc[i].k = "idx" THEN <<91>> \o Decimal(loc[i].i) \o <<93>>
                                                        ELSE <<91>> \o NormalQuote(loc[i].s) \o <<93>>])
=============================================================================
