--------------------------------- MODULE Api ---------------------------------
(***************************************************************************)
(* C06: the call protocol of the public API and the error families that    *)
(* may escape each call.  A session is a sequence of calls on one object:  *)
(*   path     Compile(text) ; Evaluate(doc)*        (evaluate only if compiled)*)
(*   pointer  MakePointer(text) ; Resolve(doc)* ; Join(part)*               *)
(*   relptr   MakeRel(text) ; To(base)*                                     *)
(*   patch    MakePatch(ops) ; Apply(doc)*                                  *)
(* Every call ends in "ok" or in one of the families allowed for it - never *)
(* in a foreign (built-in) exception, never in a timeout - and rendering    *)
(* the error as text succeeds.                                              *)
(***************************************************************************)
EXTENDS Naturals, Sequences, FiniteSets, TLC

\* families (as classified by the recorder from the exception's class):
\*   "path"  JSONPathError and subclasses        "ptr"  JSONPointerError (non-resolution)
\*   "ptr-resolution"  JSONPointerResolutionError and subclasses
\*   "relptr"  RelativeJSONPointerError and subclasses
\*   "patch"  JSONPatchError   "patch-test"  JSONPatchTestFailure
Allowed(call) ==
  CASE call = "compile" -> {"ok", "path"}
    [] call = "evaluate" -> {"ok", "path"}
    [] call = "pointer" -> {"ok", "ptr", "ptr-resolution"}          \* index-range errors are raised while parsing
    [] call = "resolve" -> {"ok", "ptr-resolution"}
    [] call = "join" -> {"ok", "ptr", "ptr-resolution"}
    [] call = "relptr" -> {"ok", "relptr", "ptr", "ptr-resolution"}   \* which pointer-error family is left open by the statement
    [] call = "to" -> {"ok", "relptr", "ptr", "ptr-resolution"}
    [] call = "patch" -> {"ok", "patch", "patch-test"}
    [] call = "apply" -> {"ok", "patch", "patch-test"}
Constructors == {"compile", "pointer", "relptr", "patch"}
Uses(c) == CASE c = "compile" -> {"evaluate"} [] c = "pointer" -> {"resolve", "join"} [] c = "relptr" -> {"to"} [] c = "patch" -> {"apply"}

\* ---- the session machine: state is what the object under construction is ------------
\* "none" -> (constructor ok) "built:<c>" | (constructor fails) "failed"
SessionStep(state, ev) ==
  IF state = "none" THEN
    IF ev.call \notin Constructors THEN [state |-> "reject", why |-> "use-before-construction"]
    ELSE IF ev.outcome \notin Allowed(ev.call) THEN [state |-> "reject", why |-> "foreign-or-disallowed-family"]
    ELSE IF ~ev.str_ok THEN [state |-> "reject", why |-> "error-text-failed"]
    ELSE [state |-> IF ev.outcome = "ok" THEN ev.call ELSE "failed", why |-> ""]
  ELSE IF state = "failed" THEN [state |-> "reject", why |-> "call-after-failed-construction"]
  ELSE IF ev.call \notin Uses(state) THEN [state |-> "reject", why |-> "call-not-in-protocol"]
  ELSE IF ev.outcome \notin Allowed(ev.call) THEN [state |-> "reject", why |-> "foreign-or-disallowed-family"]
  ELSE IF ~ev.str_ok THEN [state |-> "reject", why |-> "error-text-failed"]
  ELSE [state |-> state, why |-> ""]
=============================================================================
