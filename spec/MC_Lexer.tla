------------------------------- MODULE MC_Lexer -------------------------------
(***************************************************************************)
(* C17 at the level of the design: for every assignment of spellings to    *)
(* the identifiers and every program, the token kinds of the program        *)
(* rendered with those spellings equal the token kinds of the program       *)
(* rendered with the default spellings.                                     *)
(***************************************************************************)
EXTENDS MC_Tokens, Lexer

CONSTANT Order       \* "longest-first" (the implementation) | "shortest-first" (must be refuted) | "as-given"

\* one pass per state: the kinds under the assignment are those under the default spellings, none is ILLEGAL, and they are exported
KindsStable == done => LET k == Kinds(Text(assign), assign, Order) IN
                        /\ k = Kinds(Text(DefaultTok), DefaultTok, "longest-first")
                        /\ \A i \in 1..Len(k) : k[i] # "ILLEGAL"
                        /\ PrintT(ToJson([assign |-> assign, text |-> Text(assign), kinds |-> k]))
\* (for universes where stability is not claimed - two identifiers spelled alike - the kinds are only exported)
ExportKinds == done => PrintT(ToJson([assign |-> assign, text |-> Text(assign), kinds |-> Kinds(Text(assign), assign, Order)]))
=============================================================================
