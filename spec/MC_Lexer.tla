------------------------------- MODULE MC_Lexer -------------------------------
(***************************************************************************)
(* C17 at the level of the design: for every assignment of spellings to    *)
(* the identifiers and every program, the token kinds of the program        *)
(* rendered with those spellings equal the token kinds of the program       *)
(* rendered with the default spellings.                                     *)
(***************************************************************************)
EXTENDS MC_Tokens, Lexer

CONSTANT Order       \* "longest-first" (the implementation) | "shortest-first" (must be refuted) | "as-given"

KindsStable == done => Kinds(Text(assign), assign, Order) = Kinds(Text(DefaultTok), DefaultTok, "longest-first")
ExportKinds == done => PrintT(ToJson([assign |-> assign, text |-> Text(assign), kinds |-> Kinds(Text(assign), assign, Order)]))
NeverIllegal == done => \A i \in 1..Len(Kinds(Text(assign), assign, Order)) : Kinds(Text(assign), assign, Order)[i] # "ILLEGAL"
=============================================================================
