----------------------------- MODULE Projection -----------------------------
(***************************************************************************)
(* Query projection (Query.select): from the nodes selected below a match  *)
(* build a value that contains exactly the selected values, each found by  *)
(* following its location with every array index replaced by its rank      *)
(* among the indices selected in that array.  Two formulations:            *)
(*   Build   - declarative: group the selections by their first step       *)
(*   Insert  - constructive: insert the selections one by one into a       *)
(*             sparse tree keyed by the original steps, then compact       *)
(* TLC checks that they agree (MC_Projection.tla).                         *)
(* A selection is a record [loc, v] with a non-empty relative location.    *)
(***************************************************************************)
EXTENDS JsonValue

Sel(loc, v) == [loc |-> loc, v |-> v]

\* distinct elements of a sequence in order of first appearance
RECURSIVE Distinct(_)
Distinct(s) == IF s = <<>> THEN <<>> ELSE
               LET r == Distinct(Front(s)) IN IF \E i \in 1..Len(r) : r[i] = Last(s) THEN r ELSE Append(r, Last(s))

RECURSIVE SortNat(_)
SortNat(s) == IF s = <<>> THEN <<>> ELSE
              LET m == CHOOSE x \in Range(s) : \A y \in Range(s) : x <= y IN <<m>> \o SortNat(SelectSeq(s, LAMBDA x : x # m))

Heads(S) == [i \in 1..Len(S) |-> Head(S[i].loc)]
Under(S, st) == LET T == SelectSeq(S, LAMBDA x : Head(x.loc) = st) IN [i \in 1..Len(T) |-> Sel(Tail(T[i].loc), T[i].v)]

RECURSIVE Build(_)
Build(S) ==
  IF \E i \in 1..Len(S) : S[i].loc = <<>> THEN (LET i == CHOOSE j \in 1..Len(S) : S[j].loc = <<>> IN S[i].v)
  ELSE IF Head(S[1].loc).k = "idx"
       THEN LET ix == SortNat(Distinct([i \in 1..Len(S) |-> Head(S[i].loc).i])) IN
            Arr([r \in 1..Len(ix) |-> Build(Under(S, Idx(ix[r])))])
       ELSE LET ks == Distinct([i \in 1..Len(S) |-> Head(S[i].loc).s]) IN
            Obj(ks, [r \in 1..Len(ks) |-> Build(Under(S, Key(ks[r])))])

\* ---- constructive formulation: a sparse tree [t: "leaf", v] | [t: "node", steps, kids] -----
Leaf(v) == [t |-> "leaf", v |-> v]
EmptyNode == [t |-> "node", steps |-> <<>>, kids |-> <<>>]
RECURSIVE Insert(_, _, _)
Insert(tree, loc, v) ==
  IF loc = <<>> THEN Leaf(v)
  ELSE LET node == IF tree.t = "node" THEN tree ELSE EmptyNode
           st == Head(loc)
           pos == IF \E i \in 1..Len(node.steps) : node.steps[i] = st THEN CHOOSE i \in 1..Len(node.steps) : node.steps[i] = st ELSE 0
       IN IF pos = 0 THEN [node EXCEPT !.steps = Append(@, st), !.kids = Append(@, Insert(EmptyNode, Tail(loc), v))]
          ELSE [node EXCEPT !.kids[pos] = Insert(@, Tail(loc), v)]
RECURSIVE Compact(_)
Compact(tree) ==
  IF tree.t = "leaf" THEN tree.v
  ELSE IF tree.steps[1].k = "idx"
       THEN LET ix == SortNat([i \in 1..Len(tree.steps) |-> tree.steps[i].i]) IN
            Arr([r \in 1..Len(ix) |-> Compact(tree.kids[CHOOSE i \in 1..Len(tree.steps) : tree.steps[i].i = ix[r]])])
       ELSE Obj([i \in 1..Len(tree.steps) |-> tree.steps[i].s], [i \in 1..Len(tree.kids) |-> Compact(tree.kids[i])])
RECURSIVE InsertAll(_, _, _)
InsertAll(tree, S, k) == IF k > Len(S) THEN tree ELSE InsertAll(Insert(tree, S[k].loc, S[k].v), S, k + 1)
BuildByInsertion(S) == Compact(InsertAll(EmptyNode, S, 1))

\* ---- the three styles, for one match -----------------------------------------------------
NoProjection == [t |-> "none"]
FlatProj(S) == Arr([i \in 1..Len(S) |-> S[i].v])
Project(style, matchLoc, matchVal, S) ==
  IF ~IsContainer(matchVal) \/ S = <<>> THEN NoProjection
  ELSE CASE style = "flat" -> FlatProj(S)
         [] style = "relative" -> Build(S)
         [] style = "root" -> Build([i \in 1..Len(S) |-> Sel(matchLoc \o S[i].loc, S[i].v)])

\* rank of an index among the indices selected in the same array
RankLoc(S, loc) ==
  [j \in 1..Len(loc) |->
     IF loc[j].k = "idx"
     THEN LET prefix == SubSeq(loc, 1, j - 1)
              sib == {S[i].loc[j].i : i \in {n \in 1..Len(S) : Len(S[n].loc) >= j /\ SubSeq(S[n].loc, 1, j - 1) = prefix}}
          IN Idx(Cardinality({x \in sib : x < loc[j].i}))
     ELSE loc[j]]
\* admissible selections (the property's quantifier): below the match, none a prefix of another
Admissible(S) == /\ \A i \in 1..Len(S) : S[i].loc # <<>>
                 /\ \A i, j \in 1..Len(S) : (S[i].loc # S[j].loc) => ~IsPrefixOf(S[i].loc, S[j].loc)
\* per-array selections in ascending order
Ascending(S) == \A i, j \in 1..Len(S) : \A n \in 1..Min2(Len(S[i].loc), Len(S[j].loc)) :
                  (i < j /\ SubSeq(S[i].loc, 1, n - 1) = SubSeq(S[j].loc, 1, n - 1) /\ S[i].loc[n].k = "idx" /\ S[j].loc[n].k = "idx")
                    => S[i].loc[n].i <= S[j].loc[n].i
=============================================================================
