----------------------------- MODULE MC_Pointer -----------------------------
(***************************************************************************)
(* C04: RFC 6901 evaluation as a descent machine.  A behaviour picks a     *)
(* document and a pointer (an existing location or a one-token mutation of *)
(* one) and descends one reference token per step.                         *)
(***************************************************************************)
EXTENDS Pointer, Json

CONSTANT Universe   \* "names" | "small"

VARIABLES doc, toks, k, cur, steps
vars == <<doc, toks, k, cur, steps>>

T_a == <<97>>  T_b == <<98>>  T_1 == <<49>>  T_0 == <<48>>  T_01 == <<48, 49>>  T_p1 == <<43, 49>>
T_s1 == <<32, 49>>  T_1s == <<49, 32>> T_1u0 == <<49, 95, 48>>  T_fw1 == <<65297>>  T_e == <<>>  T_tilde == <<126>>  T_slash == <<47>>
T_asb == <<97, 47, 98>>  T_t1 == <<126, 49>>  T_t01 == <<126, 48, 49>>  T_ee == <<233>>  T_emoji == <<128512>>
T_sq == <<39>>  T_dq == <<34>>  T_sp == <<32>>  T_10 == <<49, 48>>  T_2 == <<50>> T_1d0 == <<49, 46, 48>>  T_1e0 == <<49, 101, 48>>
T_1fw0 == <<49, 65296>>  T_1ar3 == <<49, 1635>>  T_m0 == <<45, 48>>  T_x == <<120>>  T_pct == <<37, 50, 53>>  T_c1 == <<1>>  T_nl == <<10>>  T_arab1 == <<1633>>
T_1nl == <<49, 10>>  T_nl1 == <<10, 49>>  T_1cr == <<49, 13>>  T_0nl == <<48, 10>>     \* a canonical integer with a line break before or after it (int() strips them, `$` matches before a final line feed)
T_m1 == <<45, 49>>  T_m25 == <<45, 50, 53>>      \* members named like negative integers: names (the first clause speaks of every name)
T_sur == <<55296>>      \* an unpaired surrogate (JSON text can spell it: "\\ud800")
T_lim == <<57, 48, 48, 55, 49, 57, 57, 50, 53, 52, 55, 52, 48, 57, 57, 49>>      \* 2^53 - 1, the largest integer the implementation reads as an index

\* member names of every delicate kind (no backslash: escape decoding stays on)
Names == <<T_a, T_1, T_0, T_01, T_p1, T_s1, T_1s, T_1u0, T_fw1, T_e, T_tilde, T_slash, T_asb, T_t1, T_t01,
           T_ee, T_emoji, T_sq, T_dq, T_sp, T_10, T_1d0, T_1e0, T_m0, T_pct, T_c1, T_nl, T_arab1, T_1fw0, Dash, T_lim, T_sur, T_1nl, T_nl1, T_1cr, T_m1, T_m25>>

AllNames == Obj(Names, [i \in 1..Len(Names) |-> IntV(i)])
Arr4 == Arr(<<IntV(0), Str(<<120, 121>>), Arr(<<>>), Obj(<<T_1>>, <<Null>>)>>)
Long == Arr([i \in 1..12 |-> IntV(i)])

DocsNames == {AllNames, Arr(<<AllNames, Arr4, Str(T_a), IntV(5), Bool(TRUE), Null>>), Long,
              Obj(<<T_1, T_a>>, <<Long, Arr4>>)}
             \cup {Obj(<<Names[i]>>, <<Arr4>>) : i \in 1..Len(Names)}
             \cup {Obj(<<Names[i], T_x>>, <<Obj(<<Names[i]>>, <<Bool(FALSE)>>), IntV(0)>>) : i \in 1..Len(Names)}

S0 == {IntV(1), Bool(TRUE), Null, Str(T_a)}
D1 == ArraysOver(S0, 2) \cup ObjectsOver({T_a, T_1, T_01}, S0, 2)
S2 == {IntV(1), Str(<<120, 121>>), Arr(<<>>), Arr(<<IntV(1)>>), Obj(<<T_a>>, <<IntV(1)>>), Obj(<<T_1>>, <<Bool(TRUE)>>)}
D2 == ArraysOver(S2, 2) \cup ObjectsOver({T_a, T_1}, S2, 2)
DocsSmall == D1 \cup D2

\* names with backslashes: only ever resolved with escape decoding disabled
T_bs == <<92>>  T_abs == <<97, 92>>  T_bsu == <<92, 117, 48, 48, 52, 49>>  T_bsn == <<92, 110>>  T_bssl == <<92, 47>>
NamesBS == <<T_bs, T_abs, T_bsu, T_bsn, T_bssl, T_ee>>
DocsBS == {Obj(NamesBS, [i \in 1..Len(NamesBS) |-> Arr(<<IntV(i), Obj(<<NamesBS[i]>>, <<Null>>)>>)])}

Docs == IF Universe = "names" THEN DocsNames ELSE IF Universe = "backslash" THEN DocsBS ELSE DocsSmall

\* tokens to try in place of / after an existing token, by kind of the value they apply to
\* (negative indices, "#"/"~"-prefixed tokens and huge integers are documented extensions
\*  of the implementation and are kept out of the universe)
MutTokens(v) ==
  IF v.t = "arr" THEN {Decimal(Len(v.xs)), Decimal(Len(v.xs) + 1), Dash, T_01, T_p1, T_s1, T_1s, T_1u0, T_fw1, T_arab1,
                       T_1d0, T_1e0, T_a, T_e, T_0, T_1, <<48>> \o Decimal(Len(v.xs)), <<48, 48>>, T_1fw0, T_1ar3, <<49, 49>>, T_1nl, T_nl1, T_1cr, T_0nl}
  ELSE IF v.t = "obj" THEN ({T_x, T_1, T_01, T_p1, T_s1, T_1u0, T_fw1, T_e, T_0, T_10, T_2, Dash, T_1d0, T_m0, T_arab1, T_1fw0, T_1ar3, T_1nl, T_0nl} \ Range(v.ks))
  ELSE {T_0, T_1, T_a, T_e, Dash}

Existing(d) == {TokensOf(l) : l \in Range(LocsOf(d))}
\* one-token mutations: replace the last token of an existing pointer or append a token
Mutations(d) ==
  UNION {{p \o <<t>> : t \in MutTokens(Resolve(d, p))} : p \in Existing(d)}
  \cup UNION {{p \o <<t, T_a>> : t \in {T_x, T_p1}} : p \in Existing(d)}
Pointers(d) == Existing(d) \cup Mutations(d)

Init == /\ doc \in Docs
        /\ toks \in Pointers(doc)
        /\ k = 0
        /\ cur = doc
        /\ steps = <<>>

Outcome(v) == IF IsErr(v) THEN [ok |-> FALSE, kind |-> v.kind, val |-> Null] ELSE [ok |-> TRUE, kind |-> "", val |-> v]

Descend ==
  /\ k < Len(toks)
  /\ ~IsErr(cur)
  /\ cur' = Step(cur, toks[k + 1])
  /\ k' = k + 1
  /\ steps' = Append(steps, [prefix |-> PrintPtr(SubSeq(toks, 1, k + 1)), ok |-> ~IsErr(Step(cur, toks[k + 1]))])
  /\ UNCHANGED <<doc, toks>>

Next == Descend
Spec == Init /\ [][Next]_vars

Terminal == IsErr(cur) \/ k = Len(toks)

\* ---- properties of the design ---------------------------------------------
\* the machine computes Resolve, prefix by prefix
StepwiseOK == cur = Resolve(doc, SubSeq(toks, 1, k))
\* every node of every document is reached by the pointer spelled from its location,
\* and the text round-trips
Reachable == \A l \in Range(LocsOf(doc)) :
               /\ Resolve(doc, TokensOf(l)) = At(doc, l)
               /\ ParsePtr(PrintPtr(TokensOf(l))) = TokensOf(l)
               /\ IsPointerText(PrintPtr(TokensOf(l)))
\* a mutated pointer that is not itself an existing location never yields a value
MutationsFail == (Terminal /\ toks \notin Existing(doc)) => IsErr(cur)
ExistingSucceed == (Terminal /\ toks \in Existing(doc)) => ~IsErr(cur) /\ At(doc, LocOfPtr(doc, toks)) = cur

Export == Terminal => PrintT(ToJson([doc |-> doc, toks |-> toks, text |-> PrintPtr(toks), steps |-> steps,
                                      existing |-> toks \in Existing(doc),
                                      loc |-> IF IsErr(cur) THEN <<>> ELSE LocOfPtr(doc, toks),
                                      out |-> Outcome(cur)]))
=============================================================================
