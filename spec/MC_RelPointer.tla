--------------------------- MODULE MC_RelPointer ---------------------------
(***************************************************************************)
(* C16: applying a relative pointer to a base pointer, one phase per step: *)
(* move up, adjust the index, then append the suffix / set the key marker. *)
(***************************************************************************)
EXTENDS RelPointer, Json

CONSTANT Depth     \* max tokens of the base pointer

VARIABLES base, rel, phase, cur
vars == <<base, rel, phase, cur>>

BaseTokens == {<<97>>, <<48>>, <<50>>, <<49, 48>>, <<233>>, <<126>>, <<37, 52, 49>>, <<45, 48>>, <<>>}     \* a 0 2 10 e-acute ~ %41 (three ordinary characters) -0 (a name, not the index 0) and the empty token (the member named "")
Offsets == {0, 1, -1, 2, -2, 10, -10, 12, -12}
\* (a token with a line feed; a token that reads as an escape sequence - only used with escape decoding off, where it is six ordinary characters)
SuffixSet == {<<>>, <<<<97>>>>, <<<<126>>>>, <<<<233>>, <<48>>>>, <<<<97, 47, 98>>, <<>>>>, <<<<128512>>>>, <<<<97, 10, 98>>, <<99>>>>, <<<<92, 117, 48, 48, 52, 49>>>>,
              <<<<>>, <<121>>>>, <<<<37, 52, 49>>>>}        \* "//y": a suffix that begins with the empty token; "/%41": three ordinary characters

Init == /\ base \in SeqsUpTo(BaseTokens, Depth)
        /\ \E s \in 0..(Depth + 1), o \in Offsets, key \in BOOLEAN, sfx \in SuffixSet :
             /\ (key => sfx = <<>>)
             /\ rel = Rel(s, o, key, sfx)
        /\ OffsetApplicable(base, rel)
        /\ phase = "up"
        /\ cur = base

StepUp == /\ phase = "up"
          /\ LET u == Up(base, rel.steps) IN
             IF u.t = "error" THEN phase' = "err" /\ cur' = cur
             ELSE phase' = "offset" /\ cur' = u.toks
          /\ UNCHANGED <<base, rel>>
StepOffset == /\ phase = "offset"
              /\ LET o == Offset(cur, rel.off) IN
                 IF o.t = "error" THEN phase' = "err" /\ cur' = cur
                 ELSE phase' = "finish" /\ cur' = o.toks
              /\ UNCHANGED <<base, rel>>
StepFinish == /\ phase = "finish"
              /\ LET f == Finish(cur, rel) IN
                 IF f.t = "error" THEN phase' = "err" /\ cur' = cur
                 ELSE phase' = "done" /\ cur' = f.toks
              /\ UNCHANGED <<base, rel>>
Next == StepUp \/ StepOffset \/ StepFinish
Spec == Init /\ [][Next]_vars /\ WF_vars(Next)

Terminal == phase \in {"done", "err"}

\* ---- properties ------------------------------------------------------------
AgreesWithApplyRel ==
  Terminal => LET a == ApplyRel(base, rel) IN
              IF phase = "err" THEN a.t = "error" ELSE a.t = "ptr" /\ a.toks = cur
\* the draft's forbidden applications are exactly the refused ones
Forbidden == rel.steps > Len(base)
             \/ (rel.off # 0 /\ ToNat(base[Len(base) - rel.steps]) + rel.off < 0)
             \/ (rel.key /\ rel.steps = Len(base))
RefusedIffForbidden == Terminal => ((phase = "err") <=> Forbidden)
\* no offset, no suffix, zero steps is the identity
Identity == (Terminal /\ rel = Rel(0, 0, FALSE, <<>>)) => (phase = "done" /\ cur = base)
Terminates == <>Terminal

\* draft section 5.1 examples on pointer values: base /foo/1 and /highly/nested
Foo1 == <<<<102, 111, 111>>, <<49>>>>
ASSUME ApplyRel(Foo1, Rel(0, 0, FALSE, <<>>)).toks = Foo1
ASSUME ApplyRel(Foo1, Rel(1, 0, FALSE, <<<<48>>>>)).toks = <<<<102, 111, 111>>, <<48>>>>
ASSUME ApplyRel(Foo1, Rel(0, -1, FALSE, <<>>)).toks = <<<<102, 111, 111>>, <<48>>>>
ASSUME ApplyRel(Foo1, Rel(2, 0, FALSE, <<<<104>>>>)).toks = <<<<104>>>>
ASSUME ApplyRel(Foo1, Rel(0, 0, TRUE, <<>>)).toks = <<<<102, 111, 111>>, <<35, 49>>>>
ASSUME ApplyRel(Foo1, Rel(0, -1, TRUE, <<>>)).toks = <<<<102, 111, 111>>, <<35, 48>>>>
ASSUME ApplyRel(Foo1, Rel(1, 0, TRUE, <<>>)).toks = <<<<35, 102, 111, 111>>>>
ASSUME ApplyRel(Foo1, Rel(3, 0, FALSE, <<>>)).t = "error"
ASSUME ApplyRel(Foo1, Rel(2, 0, TRUE, <<>>)).t = "error"
ASSUME PrintRel(Rel(0, -1, TRUE, <<>>)) = <<48, 45, 49, 35>>
ASSUME PrintRel(Rel(2, 12, FALSE, <<<<97>>>>)) = <<50, 43, 49, 50, 47, 97>>

Export == Terminal => PrintT(ToJson([base |-> PrintPtr(base), rel |-> PrintRel(rel), steps |-> rel.steps, off |-> rel.off,
                                      ok |-> phase = "done", toks |-> IF phase = "done" THEN cur ELSE <<>>,
                                      text |-> IF phase = "done" THEN PrintPtr(cur) ELSE <<>>]))
=============================================================================
