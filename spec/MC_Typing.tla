------------------------------ MODULE MC_Typing ------------------------------
(***************************************************************************)
(* C07: the compile-time gate.  A behaviour picks a program (an expression *)
(* with a well-typed or ill-typed construct placed at some position of a   *)
(* logical expression, or a selector with an injected syntactic defect),   *)
(* judges it with Typing.tla and exports the verdict with every spelling.  *)
(* Type soundness: evaluating any accepted program on the probe documents  *)
(* never meets an operand of the wrong kind (TLC would fail to evaluate).  *)
(***************************************************************************)
EXTENDS Typing, Render, Json

CONSTANTS Universe, LoAbs, Hi   \* integer limits of the configuration under test: -LoAbs .. Hi
Lo == 0 - LoAbs

VARIABLES prog, verdict
vars == <<prog, verdict>>

a_ == <<97>>  b_ == <<98>>
Lim == [lo |-> Lo, hi |-> Hi]
At1(name) == OQ(Q("@", <<Child(SName(name))>>))
AtWild == OQ(Q("@", <<Child(SWild)>>))
ReA == ORe(Chr(97), FALSE)
One == OLit(IntV(1))
Expr(e) == [k |-> "expr", e |-> e]
Paren(e) == [k |-> "paren", e |-> e]
LitE(v) == [k |-> "litexpr", v |-> v]

Good == { ETest(Q("@", <<Child(SName(a_))>>)), ECmp("==", At1(a_), One), ECmp(">", OFn("length", <<At1(a_)>>), One),
          EFTest("match", <<At1(a_), ReA>>), EFTest("search", <<At1(b_), ReA>>), ETest(Q("@", <<Child(SWild)>>)),
          ECmp("==", OFn("count", <<AtWild>>), One), ECmp("==", OFn("value", <<AtWild>>), One),
          ECmp("<", OFn("length", <<OFn("value", <<OQ(Q("@", <<Descend(SName(a_))>>))>>)>>), OLit(IntV(3))),
          ETest(Q("@", <<Child(SFilter(ETest(Q("@", <<Child(SName(b_))>>))))>>)), ECmp("==", One, One),
          ECmp("!=", OFn("length", <<OLit(Str(<<97, 98>>))>>), OFn("count", <<OQ(Q("$", <<Child(SWild)>>))>>)),
          ETest(Q("$", <<Child(SName(a_)), Child(SIndex(0))>>)), ECmp("<>", At1(a_), One), ECmp("<>", OFn("length", <<At1(a_)>>), OFn("count", <<AtWild>>)) }
Bad == { ECmp("==", AtWild, One), ECmp("==", One, OQ(Q("@", <<Descend(SName(a_))>>))),
         ECmp("==", OQ(Q("@", <<Seg(FALSE, <<SIndex(0), SIndex(1)>>)>>)), One), ECmp("<", OQ(Q("@", <<Child(SSlice(<<0>>, <<1>>, <<>>))>>)), One),
         ECmp("==", OFn("match", <<At1(a_), ReA>>), OLit(Bool(TRUE))), ECmp("!=", OLit(Bool(FALSE)), OFn("search", <<At1(a_), ReA>>)),
         EFTest("length", <<At1(a_)>>), EFTest("count", <<AtWild>>), EFTest("value", <<AtWild>>),
         ECmp("==", OFn("length", <<At1(a_), At1(b_)>>), One), EFTest("match", <<At1(a_)>>), ECmp("==", OFn("count", <<>>), One),
         ECmp("==", OFn("length", <<AtWild>>), One), ECmp("==", OFn("count", <<One>>), One), EFTest("match", <<AtWild, ReA>>),
         ECmp("==", OFn("value", <<One>>), One), EFTest("nosuch", <<At1(a_)>>), ECmp("==", OFn("nosuch", <<At1(a_)>>), One),
         LitE(IntV(1)), LitE(Str(a_)), LitE(Bool(TRUE)), LitE(Null),
         ECmp("==", OFn("count", <<OFn("value", <<AtWild>>)>>), One), ECmp("==", OFn("length", <<OFn("match", <<At1(a_), ReA>>)>>), One),
         ECmp("==", OFn("count", <<Expr(ECmp("==", At1(a_), One))>>), One), EFTest("match", <<At1(a_), Expr(ECmp("==", At1(b_), One))>>),
         ECmp("==", OFn("value", <<OFn("count", <<AtWild>>)>>), One),
         \* an ill-typed argument after a literal (every argument is checked, not only the first)
         EFTest("match", <<OLit(Str(<<97, 98>>)), AtWild>>), EFTest("search", <<One, OFn("match", <<At1(b_), ReA>>)>>), EFTest("match", <<OLit(Null), Expr(ECmp("==", At1(b_), One))>>),
         \* the alias "<>" is a comparison like "!=": the same operands are refused
         ECmp("<>", At1(a_), AtWild), ECmp("<>", OFn("match", <<At1(a_), ReA>>), OLit(Bool(TRUE))), ECmp("<>", OQ(Q("@", <<Descend(SName(a_))>>)), One),
         \* the offender on the right of a singular query (each operand is checked, not only the first)
         ECmp("==", At1(a_), AtWild), ECmp("!=", At1(a_), OFn("match", <<At1(b_), ReA>>)), ECmp("<", OQ(Q("$", <<Child(SName(b_)), Child(SIndex(0))>>)), OQ(Q("@", <<Descend(SName(a_))>>))),
         \* a parenthesised argument is a logical expression (RFC 9535 2.4: paren-expr), which none of the five functions takes
         ECmp("==", OFn("length", <<Expr(Paren(ETest(Q("@", <<Child(SName(a_))>>))))>>), One),
         ECmp("==", OFn("count", <<Expr(Paren(ETest(Q("@", <<Child(SWild)>>))))>>), One),
         EFTest("match", <<Expr(Paren(ETest(Q("@", <<Child(SName(a_))>>)))), ReA>>),
         EFTest("search", <<At1(a_), Expr(Paren(LitE(Str(a_))))>>) }

G1 == ETest(Q("@", <<Child(SName(b_))>>))
G2 == ECmp("==", At1(b_), OLit(IntV(2)))
Contexts(x) == { x, ENot(x), Paren(x), EAnd(x, G1), EAnd(G1, x), EOr(G2, x), EOr(x, G2), ENot(Paren(EOr(x, G1))), EAnd(G2, ENot(x)),
                 ETest(Q("@", <<Child(SFilter(x))>>)), ENot(ETest(Q("@", <<Child(SFilter(EAnd(G1, x)))>>))) }
F(e) == Q("$", <<Child(SFilter(e))>>)
FD(e) == Q("$", <<Child(SName(a_)), Descend(SFilter(e))>>)

\* ---- selector-level defects ---------------------------------------------------------
Raw(text, ok) == [k |-> "raw", text |-> text, ok |-> ok]
Big == <<57, 48, 48, 55, 49, 57, 57, 50, 53, 52, 55, 52, 48, 57, 57>>     \* "900719925474099", then a last digit
RawSels ==
  { Raw(<<48, 49>>, FALSE), Raw(<<45, 48, 49>>, FALSE), Raw(<<48, 48>>, FALSE), Raw(<<45, 48>>, FALSE), Raw(<<>>, FALSE),
    Raw(Big \o <<49>>, Hi >= 100), Raw(Big \o <<50>>, FALSE), Raw(<<45>> \o Big \o <<49>>, Lo <= -100), Raw(<<45>> \o Big \o <<50>>, FALSE),
    Raw(Big \o <<50, 58>>, FALSE), Raw(<<58>> \o Big \o <<50>>, FALSE), Raw(<<58, 58>> \o Big \o <<50>>, FALSE), Raw(<<58, 58, 45>> \o Big \o <<50>>, FALSE),
    Raw(Big \o <<49, 58, 45>> \o Big \o <<49, 58>> \o Big \o <<49>>, Hi >= 100 /\ Lo <= -100), Raw(<<48, 49, 58>>, TRUE) }
\* (the last: a leading zero in a slice bound is outside the property's list; the RFC grammar refuses it,
\*  kept out by marking it ok - see DESIGN.md section 7 - and excluded from the comparison below)
\* integers at, just inside and just outside either limit, and their mirror images (the limits need not be symmetric);
\* under the default limits the same small numbers are all in range
BHi == IF Hi >= 100 THEN 5 ELSE Hi
BLo == IF Lo <= -100 THEN -5 ELSE Lo
Pts == {BHi, BHi + 1, BLo, BLo - 1, -BHi, -BHi - 1, -BLo, -BLo + 1}
IntSels == {SIndex(i) : i \in Pts \cup {0, 99}} \cup {SSlice(<<lo>>, <<>>, <<>>) : lo \in Pts} \cup {SSlice(<<>>, <<hi>>, <<>>) : hi \in Pts}
           \cup {SSlice(<<>>, <<>>, <<st>>) : st \in Pts}
SelPrograms(S) ==
  {Q("$", <<Child(s)>>) : s \in S} \cup {Q("$", <<Seg(FALSE, <<SIndex(0), s>>)>>) : s \in S} \cup {Q("$", <<Seg(TRUE, <<s, SName(a_)>>)>>) : s \in S}
  \cup {F(ETest(Q("@", <<Child(s)>>))) : s \in S} \cup {F(ECmp("==", OFn("count", <<OQ(Q("@", <<Child(s)>>))>>), One)) : s \in S}
  \cup {Q("$", <<Child(SName(a_)), Seg(FALSE, <<s, SWild>>)>>) : s \in S}

Programs ==
  CASE Universe = "positions" -> UNION {{F(c) : c \in Contexts(x)} : x \in Good \cup Bad} \cup {FD(x) : x \in Good \cup Bad}
    [] Universe = "selectors" -> SelPrograms((RawSels \ {Raw(<<48, 49, 58>>, TRUE)}) \cup IntSels) \cup {Q("$", <<Seg(FALSE, <<SIndex(1), Raw(<<>>, FALSE)>>)>>)}
    [] Universe = "pairs" -> {F(EAnd(x, y)) : x \in Good \cup Bad, y \in Good \cup Bad} \cup {F(EOr(ENot(x), y)) : x \in Good \cup Bad, y \in Good \cup Bad}

StyleSeq == << StdStyle, [StdStyle EXCEPT !.q = 34, !.sp = <<32>>, !.paren = "full"], [StdStyle EXCEPT !.sp = <<9, 10>>, !.dot = TRUE, !.num = "Epos"],
              [StdStyle EXCEPT !.words = TRUE, !.sp = <<32>>] >>      \* and / or / not for && / || / !: the same typing rules under the other spelling

Init == prog \in Programs /\ verdict = "?"
Judge == /\ verdict = "?"
         /\ verdict' = IF Accepts(prog, Lim) THEN "accept" ELSE "reject"
         /\ UNCHANGED prog
Next == Judge
Spec == Init /\ [][Next]_vars /\ WF_vars(Next)

\* ---- type soundness: accepted programs evaluate without meeting a wrong kind ---------
ProbeDocs == << Arr(<<Obj(<<a_, b_>>, <<Str(<<97, 98>>), IntV(2)>>), Obj(<<a_>>, <<Arr(<<IntV(1)>>)>>), IntV(1), Str(a_), Arr(<<Obj(<<b_>>, <<IntV(1)>>)>>)>>),
               Obj(<<a_>>, <<Arr(<<Obj(<<a_, b_>>, <<IntV(1), Bool(TRUE)>>), Null>>)>>) >>
NoRaw(q) == \A i \in 1..Len(q.segs) : \A j \in 1..Len(q.segs[i].sels) : q.segs[i].sels[j].k # "raw"
Soundness == (verdict = "accept" /\ Universe # "selectors") =>
               \A d \in 1..Len(ProbeDocs) : Len(Eval(prog, ProbeDocs[d])) >= 0
Terminates == <>(verdict # "?")

Export == verdict # "?" => PrintT(ToJson([q |-> prog, texts |-> [s \in 1..Len(StyleSeq) |-> Render(prog, StyleSeq[s])], accept |-> verdict = "accept"]))
=============================================================================
