------------------------------ MODULE MC_Threads ------------------------------
(***************************************************************************)
(* C09: evaluations of one compiled query running concurrently in threads. *)
(*                                                                         *)
(* MC_Sessions interleaves evaluations at the grain of one advancement of  *)
(* a lazy iterator; a thread can be pre-empted anywhere.  Here the grain   *)
(* is one source line of the library: thread t executes the L[t] lines of  *)
(* its evaluation (the harness measures L[t] on a solo run and hands it    *)
(* over as a constant), a step is a burst of consecutive lines of one      *)
(* thread, and a burst that stops before its thread is finished is a       *)
(* pre-emption.  TLC enumerates every schedule with at most MaxPreempt     *)
(* pre-emptions whose pre-emption points are multiples of Stride (Stride   *)
(* = 1: every line of every thread is a pre-emption point); the harness    *)
(* runs real threads under a line-grain scheduler along exactly those      *)
(* schedules (harness/linesched.py).                                       *)
(*                                                                         *)
(* The design checked: an evaluation keeps its working values in its own   *)
(* frames (generator locals, FilterContext, per-resolution memo cells),    *)
(* never on something the threads share (the compiled query, its           *)
(* selectors and expressions, the environment).  The abstract thread       *)
(* program alternates "stash a working value" (odd lines) and "use it"     *)
(* (even lines); with SharedScratch = FALSE the stash is the thread's own  *)
(* and Independence holds for every schedule, with SharedScratch = TRUE    *)
(* (the wrong design: the stash lives on a shared object) TLC must refute  *)
(* it with a single pre-emption - the self-test of this module.  No        *)
(* schedule at the grain of MC_Sessions can tell the two designs apart:    *)
(* stash and use happen inside one advancement.                            *)
(***************************************************************************)
EXTENDS Naturals, Sequences, FiniteSets, TLC, Json

CONSTANTS NThreads,      \* 2 or 3
          L1, L2, L3,    \* lines each thread executes on its own
          MaxPreempt,    \* bound on pre-emptions in a schedule
          Stride,        \* pre-emption points are line counts that are multiples of Stride
          SharedScratch, \* the wrong design (self-test)
          Walk           \* TRUE: seeded random schedules (NextSim), no bound on pre-emptions

VARIABLES pc, pre, sched, cell, priv, corrupt
vars == <<pc, pre, sched, cell, priv, corrupt>>

Threads == 1..NThreads
L == <<L1, L2, L3>>
Done(t) == pc[t] = L[t]

Init == /\ pc = [t \in Threads |-> 0]
        /\ pre = 0
        /\ sched = <<>>
        /\ cell = 0                                  \* the shared stash (used only by the wrong design)
        /\ priv = [t \in Threads |-> 0]              \* each thread's own stash
        /\ corrupt = [t \in Threads |-> FALSE]

\* thread t executes lines pc[t]+1 .. pc[t]+n
Burst(t, n) ==
  LET f == pc[t] + 1
      firstIsUse == f % 2 = 0
      stashes == (f % 2 = 1) \/ n >= 2                 \* an odd line lies in f .. f+n-1
      seen == IF SharedScratch THEN cell ELSE priv[t]
  IN /\ n >= 1 /\ pc[t] + n <= L[t]
     /\ pc' = [pc EXCEPT ![t] = @ + n]
     /\ corrupt' = [corrupt EXCEPT ![t] = @ \/ (firstIsUse /\ seen # t)]
     /\ cell' = IF stashes THEN t ELSE cell
     /\ priv' = [priv EXCEPT ![t] = IF stashes THEN t ELSE @]
     /\ sched' = Append(sched, <<t, n>>)
     /\ pre' = IF pc[t] + n < L[t] THEN pre + 1 ELSE pre

\* the thread that ran last does not run again at once (that would be one longer burst)
MayRun(t) == ~Done(t) /\ (IF sched = <<>> THEN TRUE ELSE sched[Len(sched)][1] # t)
Next == \E t \in Threads : MayRun(t) /\
          \/ Burst(t, L[t] - pc[t])                                     \* to its end
          \/ /\ pre < MaxPreempt /\ \E u \in Threads \ {t} : ~Done(u)        \* somebody to switch to
             /\ \E n \in 1..(L[t] - pc[t] - 1) : (pc[t] + n) % Stride = 0 /\ Burst(t, n)

\* random schedules: bursts of 1 .. 2*Stride lines (the draw mentions the state: TLC evaluates a constant expression once)
Pick(S) == RandomElement(IF Len(sched) >= 0 THEN S ELSE {})
NextSim == (\E u \in Threads : ~Done(u)) /\ \E t \in {Pick({u \in Threads : ~Done(u)})} : \E n \in {Pick(1..(2 * Stride))} :
             Burst(t, IF pc[t] + n > L[t] THEN L[t] - pc[t] ELSE n)

Spec == Init /\ [][Next]_vars /\ WF_vars(Next)

Finished == \A t \in Threads : Done(t)
\* no thread ever uses a working value another thread stashed
Independence == \A t \in Threads : ~corrupt[t]
\* every schedule runs every thread to its end (Next never blocks before that)
Terminates == <>Finished
PreemptBound == Walk \/ pre <= MaxPreempt

Export == Finished => PrintT(ToJson([sched |-> sched, pre |-> pre]))
=============================================================================
