--------------------------- MODULE MC_ParseRender ---------------------------
(***************************************************************************)
(* The specification's own front end, closed on itself: for every program  *)
(* of the MC_Typing universes and every spelling,                          *)
(*     text   = Render(program, style)            (Render.tla)             *)
(*     tokens = Tokens(text)                      (Lexer.tla)              *)
(*     tree   = Compile(tokens)                   (Parser.tla)             *)
(* the parser's verdict is the verdict of the RFC typing rules             *)
(* (Typing.tla), and for accepted programs ToQuery(tree) is the program    *)
(* (ParseBack.tla).  No code is involved: this is a theorem about the      *)
(* modules that the trace validations bind the code to - the printer's     *)
(* grammar is the grammar the rule list and the precedence-climbing parser *)
(* read, and the checks made while parsing are the RFC's typing rules on   *)
(* these universes.                                                        *)
(*                                                                         *)
(* Conversions of token texts (string escapes, number values) are the      *)
(* host's in the implementation; here only the plain cases are converted   *)
(* (no backslash in a string, numbers of at most nine digits) and texts    *)
(* with anything else are left to the recorded traces.                     *)
(***************************************************************************)
EXTENDS MC_Typing, ParseBack

Unlimited == 1000000000
P == INSTANCE Parser WITH MinIdx <- (IF LoAbs >= 100 THEN Unlimited ELSE LoAbs), MaxIdx <- (IF Hi >= 100 THEN Unlimited ELSE Hi)
L == INSTANCE Lexer

\* ---- the plain conversions ----------------------------------------------------------------------
PlainText(s) == \A j \in 1..Len(s) : s[j] # 92 /\ s[j] >= 32
RECURSIVE Pow10(_)
Pow10(n) == IF n = 0 THEN 1 ELSE 10 * Pow10(n - 1)
IsD(c) == c >= 48 /\ c <= 57
RECURSIVE DVal(_)
DVal(s) == IF s = <<>> THEN 0 ELSE DVal(Front(s)) * 10 + (Last(s) - 48)
\* parts of  -?I(.F)?([eE][+-]?E)?
NumParts(s) ==
  LET neg == s # <<>> /\ s[1] = 45
      body == IF neg THEN Tail(s) ELSE s
      epos == IF \E j \in 1..Len(body) : body[j] \in {101, 69} THEN CHOOSE j \in 1..Len(body) : body[j] \in {101, 69} ELSE 0
      mant == IF epos = 0 THEN body ELSE SubSeq(body, 1, epos - 1)
      ex == IF epos = 0 THEN <<>> ELSE SubSeq(body, epos + 1, Len(body))
      eneg == ex # <<>> /\ ex[1] = 45
      edig == IF ex # <<>> /\ ex[1] \in {43, 45} THEN Tail(ex) ELSE ex
      dot == IF \E j \in 1..Len(mant) : mant[j] = 46 THEN CHOOSE j \in 1..Len(mant) : mant[j] = 46 ELSE 0
      ip == IF dot = 0 THEN mant ELSE SubSeq(mant, 1, dot - 1)
      fp == IF dot = 0 THEN <<>> ELSE SubSeq(mant, dot + 1, Len(mant))
  IN [neg |-> neg, ip |-> ip, fp |-> fp, e |-> (IF eneg THEN 0 - DVal(edig) ELSE DVal(edig)), small |-> Len(ip) + Len(fp) <= 9 /\ Len(edig) <= 1]
\* twice the value, when that is an integer of moderate size
NumH(s) == LET p == NumParts(s)
               n == DVal(p.ip \o p.fp)
               sc == p.e - Len(p.fp)
               mag == IF sc >= 0 THEN 2 * n * Pow10(sc) ELSE (2 * n) \div Pow10(0 - sc)
           IN IF p.neg THEN 0 - mag ELSE mag
NumOK(s) == LET p == NumParts(s)  sc == p.e - Len(p.fp) IN
            /\ p.small /\ sc <= 4
            /\ (sc < 0 => (2 * DVal(p.ip \o p.fp)) % Pow10(0 - sc) = 0)
DigitsOK(s) == Len(s) <= 9
ToP(tok) == [k |-> tok.k, v |-> tok.v, h |-> (IF tok.k \in {"INT", "FLOAT"} THEN NumH(tok.v) ELSE 0), bad |-> FALSE]
Convertible(ts) == \A j \in 1..Len(ts) :
   /\ (ts[j].k \in {"DOUBLE_QUOTE_STRING", "SINGLE_QUOTE_STRING"} => PlainText(ts[j].v))
   /\ (ts[j].k \in {"INT", "FLOAT"} => NumOK(ts[j].v))
   /\ (ts[j].k \in {"SLICE_START", "SLICE_STOP", "SLICE_STEP"} => DigitsOK(ts[j].v))

FrontEnd(text) == LET ts == L!Tokens(text, DefaultTok, "longest-first") IN
                  [conv |-> Convertible(ts), v |-> IF Convertible(ts) THEN P!Verdict([j \in 1..Len(ts) |-> ToP(ts[j])]) ELSE [ok |-> FALSE, err |-> "?", tree |-> <<>>]]

\* the parser model's verdict is the verdict of the typing rules, in every spelling
VerdictsAgree == verdict # "?" => \A s \in 1..Len(StyleSeq) :
                   LET fe == FrontEnd(Render(prog, StyleSeq[s])) IN fe.conv => (fe.v.ok = (verdict = "accept"))
\* what the parser builds from an accepted program's text is the program
ParseRenderIsIdentity == (verdict = "accept" /\ NoRaw(prog)) => \A s \in 1..Len(StyleSeq) :
                   LET fe == FrontEnd(Render(prog, StyleSeq[s])) IN (fe.conv /\ fe.v.ok) => (fe.v.tree.rest = <<>> /\ Same(ToQuery(fe.v.tree.first), prog))
\* not vacuous: how many texts were converted and parsed
ExportFront == verdict # "?" => PrintT(ToJson([front |-> [s \in 1..Len(StyleSeq) |-> FrontEnd(Render(prog, StyleSeq[s])).conv], accept |-> verdict = "accept"]))
=============================================================================
