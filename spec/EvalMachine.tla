----------------------------- MODULE EvalMachine -----------------------------
(***************************************************************************)
(* Evaluation of a query as a state machine, generic in the universes.     *)
(* State: the query, a program counter over its segments, and - for every  *)
(* document of the universe at once - the node list after the segments     *)
(* applied so far.  One action per segment (RFC 9535 2.5).  Filter         *)
(* selectors are evaluated inside the step by the recursive Truth operator.*)
(***************************************************************************)
EXTENDS Render, Pointer, Json

CONSTANTS Queries,    \* set of query ASTs
          DocSeq,     \* sequence of documents
          Styles,     \* sequence of rendering styles
          Ctx         \* the filter-context value made available to queries

VARIABLES q, pc, nodes
vars == <<q, pc, nodes>>

NDocs == Len(DocSeq)
StartOf(qq, d) == StartNodes(qq, RootEnv(DocSeq[d], Ctx))

Init == /\ q \in Queries
        /\ pc = 0
        /\ nodes = [d \in 1..NDocs |-> StartOf(q, d)]

\* one segment applied to the node list of every document
Segment ==
  /\ pc < Len(q.segs)
  /\ nodes' = [d \in 1..NDocs |-> ApplySegment(q.segs[pc + 1], nodes[d], RootEnv(DocSeq[d], Ctx))]
  /\ pc' = pc + 1
  /\ UNCHANGED q
Next == Segment
Spec == Init /\ [][Next]_vars /\ WF_vars(Next)

Terminal == pc = Len(q.segs)

\* ---- properties of the design ------------------------------------------------
\* every node in the list is where its location says it is ($-rooted queries)
LocOK == q.root = "$" =>
           \A d \in 1..NDocs : \A i \in 1..Len(nodes[d]) :
              (\A j \in 1..Len(nodes[d][i].loc) : nodes[d][i].loc[j].k # "kname") => At(DocSeq[d], nodes[d][i].loc) = nodes[d][i].v
\* the pipeline equals the RFC denotation computed in one go, and the second formulation
RECURSIVE RunDirect(_, _, _, _)
RunDirect(segs, k, ns, env) == IF k > Len(segs) THEN ns ELSE RunDirect(segs, k + 1, SegDirect(segs[k], ns, env), env)
Denotation ==
  Terminal => \A d \in 1..NDocs :
     /\ nodes[d] = EvalCtx(q, DocSeq[d], Ctx)
     /\ nodes[d] = RunDirect(q.segs, 1, StartOf(q, d), RootEnv(DocSeq[d], Ctx))
\* selectors applied to primitives select nothing: every selected node's parent is a container
WrongKindSelectsNothing ==
  q.root = "$" => \A d \in 1..NDocs : \A i \in 1..Len(nodes[d]) :
     (nodes[d][i].loc # <<>> /\ Last(nodes[d][i].loc).k # "kname") => IsContainer(At(DocSeq[d], Front(nodes[d][i].loc)))
Terminates == <>Terminal

\* ---- exports -------------------------------------------------------------------
NewVal == Str(<<78, 69, 87>>)
\* the documents with, for every node, its location, normalized path (RFC 9535 2.7), pointer
\* (RFC 6901) and the documents RFC 6902 replace / remove at that node must produce
DocsWithTables ==
  [d \in 1..NDocs |->
          [doc |-> DocSeq[d],
           nodes |-> [i \in 1..Len(LocsOf(DocSeq[d])) |->
               LET l == LocsOf(DocSeq[d])[i] IN
               [loc |-> l, path |-> NormPath(l), ptr |-> PrintPtr(TokensOf(l)),
                replaced |-> SetAtLoc(DocSeq[d], l, NewVal),
                nulled |-> SetAtLoc(DocSeq[d], l, Null),
                removed |-> IF l = <<>> THEN Null ELSE RemoveAtLoc(DocSeq[d], l)]]]]
DocsPlain == [d \in 1..NDocs |-> [doc |-> DocSeq[d], nodes |-> <<>>]]

\* value of a result node is exported only when its location alone does not determine it
NodeOut(n) == n.loc
Export == Terminal => PrintT(ToJson([q |-> q, texts |-> [s \in 1..Len(Styles) |-> Render(q, Styles[s])],
                                      res |-> [d \in 1..NDocs |-> [i \in 1..Len(nodes[d]) |-> NodeOut(nodes[d][i])]]]))
=============================================================================
