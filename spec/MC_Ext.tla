------------------------------- MODULE MC_Ext -------------------------------
(***************************************************************************)
(* C13: the documented non-standard syntax.  The evaluation machine is     *)
(* instantiated with queries that use each extension construct in every    *)
(* position the grammar allows, rendered in alias spellings (rootless,     *)
(* bare names, and / or / not, <>, nil / none / capitalised literals,      *)
(* undefined / missing) next to the standard spelling.  Desugar maps every *)
(* alias construct to its standard form; TLC checks that direct semantics  *)
(* and the semantics of the desugared query agree on the whole universe.   *)
(***************************************************************************)
EXTENDS Render, Json

CONSTANT Universe

VARIABLES q, pc, nodes

a_ == <<97>>  b_ == <<98>>  s_ == <<115>>  k_ == <<107>>  c_ == <<99>>  o_ == <<111>>  v_ == <<118>>  w_ == <<119>>  l_ == <<108>>  n_ == <<110>>
e1_ == <<101, 49>>  e3_ == <<101, 51>>
S(t) == Str(t)
At1(name) == OQ(Q("@", <<Child(SName(name))>>))
Self == OQ(Q("@", <<>>))
QAt(segs) == Q("@", segs)
F(e) == Q("$", <<Child(SFilter(e))>>)
FC(e) == Q("$", <<Child(SName(c_)), Child(SFilter(e))>>)
FO(e) == Q("$", <<Child(SName(o_)), Child(SFilter(e))>>)
Ctx1(name) == OQ(Q("_", <<Child(SName(name))>>))

Elems == << Obj(<<a_, b_, s_>>, <<IntV(1), IntV(0), S(<<97, 98>>)>>),  Obj(<<a_>>, <<IntV(2)>>),
            Obj(<<a_, s_>>, <<Null, S(b_)>>),                          Obj(<<b_, s_>>, <<IntV(2), S(<<65, 66>>)>>),
            Obj(<<a_, l_>>, <<S(a_), Arr(<<IntV(1), S(b_)>>)>>),       Obj(<<>>, <<>>),
            Arr(<<Obj(<<a_>>, <<IntV(1)>>), Obj(<<a_>>, <<IntV(3)>>)>>), Arr(<<IntV(1), IntV(2)>>),
            S(<<97, 98>>),                                             IntV(2),
            Null,                                                      Obj(<<a_, b_>>, <<S(<<120>>), S(<<121>>)>>),
            Obj(<<a_, b_>>, <<Arr(<<>>), Obj(<<>>, <<>>)>>) >>              \* members that exist and hold an empty array / an empty object
ElemNames == [i \in 1..Len(Elems) |-> <<101>> \o Decimal(i)]
MainDoc == Obj(<<k_, c_, o_, a_, b_>>, <<IntV(1), Arr(Elems), Obj(ElemNames, Elems), Obj(<<a_, b_>>, <<IntV(5), Arr(<<IntV(6)>>)>>), S(<<120>>)>>)
ArrDoc == Arr(<<Obj(<<a_, b_>>, <<IntV(1), IntV(2)>>), Arr(<<IntV(1)>>), S(a_), IntV(1), Obj(<<>>, <<>>)>>)
TheCtx == Obj(<<v_, w_, l_, n_>>, <<IntV(1), S(a_), Arr(<<IntV(1), IntV(2)>>), Obj(<<v_>>, <<IntV(2)>>)>>)
\* member names that begin with a word the lexer knows and go on (nilx, inx, orx, notx, truex): names, not keywords
nilx_ == <<110, 105, 108, 120>>  inx_ == <<105, 110, 120>>  orx_ == <<111, 114, 120>>  notx_ == <<110, 111, 116, 120>>  truex_ == <<116, 114, 117, 101, 120>>
ux_ == <<95, 120>>      \* "_x": a name that begins with the filter-context spelling
\* (true and false among its members, so that the capitalised literals can be told apart; kept out of the candidates of the
\*  membership universes, whose equality the statement leaves open)
\* capitalised words that are NOT among the documented capitalised literals (True, False, Null, Nil, None): names like any other
In_ == <<73, 110>>  Missing_ == <<77, 105, 115, 115, 105, 110, 103>>  Contains_ == <<67, 111, 110, 116, 97, 105, 110, 115>>  Undefined_ == <<85, 110, 100, 101, 102, 105, 110, 101, 100>>  And_ == <<65, 110, 100>>  Not_ == <<78, 111, 116>>
KwDoc == Obj(<<nilx_, inx_, notx_, a_, ux_, <<116>>, <<102>>, In_, Missing_, Contains_, Undefined_, And_, Not_>>,
             <<IntV(1), Obj(<<orx_, truex_, In_>>, <<IntV(2), IntV(0), IntV(9)>>), IntV(3), IntV(4), IntV(5), Bool(TRUE), Bool(FALSE), IntV(11), IntV(12), IntV(13), IntV(14), IntV(15), IntV(16)>>)
DocSeq == <<MainDoc, ArrDoc, IntV(7), Obj(<<a_>>, <<IntV(1)>>), KwDoc>>

ReAB == Cat(Chr(97), Chr(98))
ReAdot == Cat(Chr(97), Star(AnyChar))

QuerySet ==
  CASE Universe = "alias" ->     \* standard constructs, spelled with aliases by the styles
         { Q("$", <<Child(SName(a_))>>), Q("$", <<Child(SName(a_)), Child(SName(b_))>>), Q("$", <<Child(SName(c_)), Child(SIndex(0)), Child(SName(a_))>>),
           Q("$", <<Seg(FALSE, <<SName(a_), SName(b_)>>)>>), Q("$", <<Child(SName(a_)), Descend(SName(a_))>>),
           Q("$", <<Child(SName(o_)), Seg(FALSE, <<SName(e1_), SName(e3_)>>), Child(SName(s_))>>),
           Q("$", <<Child(SName(nilx_))>>), Q("$", <<Seg(FALSE, <<SName(nilx_), SName(notx_)>>)>>), Q("$", <<Child(SName(inx_)), Child(SName(orx_))>>),
           Q("$", <<Descend(SName(truex_))>>), Q("$", <<Child(SFilter(ETest(QAt(<<Child(SName(orx_))>>))))>>),
           Q("$", <<Child(SName(ux_))>>),
           Q("$", <<Seg(FALSE, <<SName(In_), SName(Missing_)>>)>>), Q("$", <<Child(SName(Contains_))>>), Q("$", <<Child(SName(Undefined_))>>),
           Q("$", <<Descend(SName(In_))>>), Q("$", <<Seg(FALSE, <<SName(And_), SName(Not_)>>)>>), Q("$", <<Child(SName(Missing_))>>),
           F(ECmp("==", Self, OLit(Bool(TRUE)))), F(ECmp("!=", Self, OLit(Bool(FALSE)))), F(ECmp("==", OLit(Bool(FALSE)), Self)) }
         \cup {FC(e) : e \in { EAnd(ETest(QAt(<<Child(SName(a_))>>)), ETest(QAt(<<Child(SName(b_))>>))),
                               EOr(ETest(QAt(<<Child(SName(s_))>>)), ECmp("==", At1(a_), OLit(IntV(2)))),
                               ENot(ETest(QAt(<<Child(SName(a_))>>))),
                               ENot(EAnd(ETest(QAt(<<Child(SName(a_))>>)), ENot(ETest(QAt(<<Child(SName(b_))>>))))),
                               EOr(EAnd(ETest(QAt(<<Child(SName(a_))>>)), ETest(QAt(<<Child(SName(s_))>>))), ENot(ETest(QAt(<<Child(SWild)>>)))),
                               ECmp("==", At1(a_), OLit(Null)), ECmp("!=", At1(a_), OLit(Null)), ECmp("==", OLit(Null), At1(a_)),
                               ECmp("==", At1(a_), OLit(Bool(TRUE))), ECmp("!=", At1(b_), OLit(Bool(FALSE))), ECmp("==", At1(b_), OLit(Bool(FALSE))),
                               ECmp("!=", At1(a_), OLit(IntV(1))), ECmp("!=", At1(a_), At1(b_)),
                               EAnd(ECmp("!=", At1(a_), OLit(IntV(1))), ENot(ECmp("==", At1(a_), OLit(Null)))) }}
    [] Universe = "keys" ->
         { Q("$", <<Child(SKeys)>>), Q("$", <<Descend(SKeys)>>), Q("$", <<Seg(FALSE, <<SKeys, SName(a_)>>)>>), Q("$", <<Seg(FALSE, <<SName(a_), SKeys>>)>>),
           Q("$", <<Child(SName(a_)), Child(SKeys)>>), Q("$", <<Child(SName(c_)), Child(SWild), Child(SKeys)>>),
           Q("$", <<Child(SName(c_)), Child(SKeys)>>), Q("$", <<Child(SName(b_)), Child(SKeys)>>), Q("$", <<Child(SName(k_)), Child(SKeys)>>),
           Q("$", <<Child(SName(o_)), Descend(SKeys)>>), Q("$", <<Seg(TRUE, <<SKeys, SIndex(0)>>)>>),
           Q("$", <<Child(SName(c_)), Child(SFilter(ETest(QAt(<<Child(SKeys)>>))))>>),
           Q("$", <<Child(SName(c_)), Child(SFilter(ECmp("==", OFn("count", <<OQ(QAt(<<Child(SKeys)>>))>>), OLit(IntV(2)))))>>),
           Q("$", <<Child(SName(c_)), Child(SFilter(ECmp("in", OLit(S(s_)), OQ(QAt(<<Child(SKeys)>>)))))>>) }
    [] Universe = "fake" ->
         { Q("^", <<Child(SFilter(ECmp("==", At1(a_), OLit(IntV(1)))))>>), Q("^", <<Child(SFilter(ETest(QAt(<<>>))))>>),
           Q("^", <<Child(SFilter(ECmp(">", OFn("length", <<Self>>), OLit(IntV(1)))))>>), Q("^", <<Child(SIndex(0))>>), Q("^", <<>>),
           Q("^", <<Child(SFilter(ETest(QAt(<<Child(SName(k_))>>)))), Child(SName(a_))>>), Q("^", <<Child(SWild), Child(SName(a_))>>),
           Q("^", <<Child(SFilter(ECmp("==", Self, OLit(IntV(7)))))>>),
           Q("^", <<Child(SFilter(ECmp("==", OQ(Q("$", <<Child(SName(a_))>>)), At1(a_))))>>),
           FC(ECmp("==", OQ(Q("^", <<Child(SIndex(0)), Child(SName(k_))>>)), At1(a_))),
           FC(ETest(Q("^", <<Child(SFilter(ECmp("==", At1(k_), OLit(IntV(1)))))>>))) }
    [] Universe = "key" ->
         { FO(ECmp("==", OKey, OLit(S(e1_)))), FC(ECmp("==", OKey, OLit(IntV(1)))), FC(EAnd(ECmp(">=", OKey, OLit(IntV(1))), ETest(QAt(<<Child(SName(a_))>>)))),
           FO(ECmp("in", OKey, OList(<<S(e1_), S(e3_)>>))), FC(ECmp("in", OKey, OList(<<IntV(0), IntV(4)>>))),
           FC(ETest(QAt(<<Child(SFilter(ECmp("==", OKey, OLit(IntV(0)))))>>))), FO(ECmp("!=", OKey, OLit(S(e1_)))),
           FC(ETest(QAt(<<Child(SFilter(ECmp("==", OKey, OLit(S(a_)))))>>))), FO(ECmp("<", OKey, OLit(S(e3_)))),
           F(ECmp("==", OKey, OLit(S(a_)))), F(ECmp("==", OKey, OLit(IntV(2)))),
           Q("$", <<Descend(SFilter(ECmp("==", OKey, OLit(S(a_)))))>>), FC(ECmp("==", OKey, At1(b_))),
           FO(EFTest("match", <<OKey, ORe(Cat(Chr(101), Chr(49)), FALSE)>>)), FC(ECmp("==", OFn("length", <<OKey>>), OLit(IntV(2)))) }
    [] Universe = "ctx" ->
         { FC(ECmp("==", At1(a_), Ctx1(v_))), FC(ETest(Q("_", <<Child(SName(w_))>>))), FC(ETest(Q("_", <<Child(SName(c_))>>))),
           FC(ETest(QAt(<<Child(SFilter(ECmp("==", At1(a_), Ctx1(v_))))>>))),
           FC(ETest(QAt(<<Child(SFilter(ETest(QAt(<<Child(SFilter(ECmp("==", Self, Ctx1(v_))))>>))))>>))),
           FC(ECmp("in", At1(a_), Ctx1(l_))), FC(ECmp("==", At1(a_), OQ(Q("_", <<Child(SName(n_)), Child(SName(v_))>>)))),
           FC(ECmp("==", At1(s_), Ctx1(w_))), FO(EAnd(ECmp(">=", At1(a_), Ctx1(v_)), ECmp("!=", OKey, Ctx1(w_)))),
           Q("$", <<Descend(SFilter(ECmp("==", At1(a_), Ctx1(v_))))>>),            FC(ECmp("==", OFn("count", <<OQ(Q("_", <<Child(SName(l_)), Child(SWild)>>))>>), OLit(IntV(2)))),
           FC(ECmp("==", OQ(Q("$", <<Child(SName(k_))>>)), Ctx1(v_))) }
    [] Universe = "member" ->
         { FC(ECmp("in", At1(a_), OList(<<IntV(1), Null>>))), FC(ECmp("contains", OList(<<Null, S(a_)>>), At1(a_))),
           FC(ECmp("in", At1(a_), OList(<<IntV(1), IntV(3)>>))), FC(ECmp("in", At1(a_), OList(<<S(a_), S(b_)>>))), FC(ECmp("in", At1(a_), OList(<<>>))),
           FC(ECmp("contains", OList(<<IntV(2), IntV(1)>>), At1(a_))), FC(ECmp("in", OLit(IntV(1)), At1(l_))), FC(ECmp("contains", At1(l_), OLit(S(b_)))),
           FC(ECmp("in", OLit(S(a_)), At1(s_))), FC(ECmp("contains", At1(s_), OLit(S(b_)))), FC(ECmp("in", OLit(S(<<98, 97>>)), At1(s_))),
           FC(ECmp("in", OLit(S(a_)), Self)), FC(ECmp("contains", Self, OLit(S(s_)))), FC(ECmp("in", OLit(IntV(2)), Self)), FC(ECmp("contains", Self, OLit(IntV(1)))),
           FC(ECmp("in", At1(a_), OQ(Q("$", <<Child(SName(c_)), Child(SIndex(7))>>)))), FC(ECmp("in", At1(b_), At1(l_))),
           FC(ENot(ECmp("in", At1(a_), OList(<<IntV(1), IntV(2)>>)))), FC(EAnd(ECmp("in", OLit(S(a_)), Self), ECmp("contains", Self, OLit(S(b_))))),
           FC(ECmp("in", OLit(Null), Self)), FC(ECmp("in", OLit(S(<<>>)), At1(s_))) }
    [] Universe = "regex" ->
         { FC(ECmp("=~", At1(s_), OReLit(ReAB, FALSE))), FC(ECmp("=~", At1(s_), OReLit(ReAB, TRUE))), FC(ECmp("=~", At1(s_), OReLit(ReAdot, FALSE))),
           FC(ECmp("=~", At1(s_), OReLit(Chr(97), FALSE))), FC(ECmp("=~", At1(s_), OReLit(Chr(97), TRUE))), FC(ECmp("=~", Self, OReLit(ReAB, FALSE))),
           FC(ENot(ECmp("=~", At1(s_), OReLit(ReAB, TRUE)))), FC(ECmp("=~", At1(a_), OReLit(AnyChar, FALSE))), FC(ECmp("=~", At1(s_), OReLit(Cat(Chr(47), Chr(97)), FALSE))),
           FC(EOr(ECmp("=~", At1(s_), OReLit(Chr(98), TRUE)), ECmp("=~", At1(a_), OReLit(Chr(97), FALSE)))),
           \* a full match is not "the first alternative that matches at the start, if it happens to end at the end": a|ab on "ab"
           FC(ECmp("=~", At1(s_), OReLit(Alt(Chr(97), ReAB), FALSE))), FC(ECmp("=~", At1(s_), OReLit(Alt(Chr(97), ReAB), TRUE))) }
    [] Universe = "undef" ->
         { FC(ECmp("==", At1(a_), OUndef)), FC(ECmp("!=", At1(a_), OUndef)), FC(ECmp("==", OUndef, At1(a_))), FC(ECmp("!=", OUndef, At1(s_))),
           FC(EAnd(ECmp("==", At1(a_), OUndef), ECmp("!=", At1(b_), OUndef))), FC(ENot(ECmp("==", At1(b_), OUndef))),
           FC(ECmp("==", OQ(QAt(<<Child(SName(a_)), Child(SName(a_))>>)), OUndef)), FO(ECmp("==", At1(s_), OUndef)),
           FC(ECmp("==", OQ(Q("$", <<Child(SName(k_))>>)), OUndef)), FC(ECmp("!=", OQ(Q("$", <<Child(SName(s_))>>)), OUndef)),
           FC(ECmp("<>", At1(a_), OLit(IntV(1)))), FC(ECmp("<>", At1(a_), At1(b_))), FC(ECmp("<>", At1(a_), OUndef)), FC(ENot(ECmp("<>", At1(a_), OLit(Null)))) }

kw(str) == str
W_nil == <<110, 105, 108>>  W_Nil == <<78, 105, 108>>  W_none == <<110, 111, 110, 101>>  W_None == <<78, 111, 110, 101>>  W_Null == <<78, 117, 108, 108>>
W_True == <<84, 114, 117, 101>>  W_False == <<70, 97, 108, 115, 101>>  W_missing == <<109, 105, 115, 115, 105, 110, 103>>
StyleSeq == << StdStyle,
   [StdStyle EXCEPT !.words = TRUE, !.ne = <<60, 62>>, !.nil = W_nil, !.tru = W_True, !.fls = W_False, !.undef = W_missing, !.bare = TRUE, !.rootless = TRUE],
   [StdStyle EXCEPT !.nil = W_None, !.sp = <<32>>, !.q = 34, !.dot = TRUE, !.paren = "full"],
   [StdStyle EXCEPT !.nil = W_none, !.words = TRUE, !.bare = TRUE, !.dot = TRUE],
   [StdStyle EXCEPT !.nil = W_Null, !.rootless = TRUE, !.tru = W_True, !.ne = <<60, 62>>],
   [StdStyle EXCEPT !.nil = W_Nil, !.fls = W_False, !.undef = W_missing, !.sp = <<32>>] >>

M == INSTANCE EvalMachine WITH Queries <- QuerySet, DocSeq <- DocSeq, Styles <- StyleSeq, Ctx <- TheCtx
Spec == M!Spec
LocOK == M!LocOK
Denotation == M!Denotation
Terminates == M!Terminates
\* a second filter context: the same compiled query evaluated on the same document must follow the context it is given
Ctx2 == Obj(<<v_, w_, l_, n_>>, <<IntV(2), S(b_), Arr(<<IntV(3)>>), Obj(<<v_>>, <<IntV(1)>>)>>)
Export == M!Terminal => PrintT(ToJson([q |-> q, texts |-> [s \in 1..Len(StyleSeq) |-> Render(q, StyleSeq[s])],
                                        res |-> [d \in 1..Len(DocSeq) |-> [i \in 1..Len(nodes[d]) |-> nodes[d][i].loc]],
                                        res2 |-> [d \in 1..Len(DocSeq) |-> [i \in 1..Len(EvalCtx(q, DocSeq[d], Ctx2)) |-> EvalCtx(q, DocSeq[d], Ctx2)[i].loc]]]))
ASSUME PrintT(ToJson([docs |-> M!DocsPlain, ctx |-> TheCtx, ctx2 |-> Ctx2]))

\* ---- Desugar: every alias construct has a standard form with the same meaning --------
RECURSIVE DesugarE(_), DesugarQ(_)
IsUndef(x) == x.k = "undef"
DesugarE(e) ==
  CASE e.k \in {"or", "and"} -> [e EXCEPT !.l = DesugarE(e.l), !.r = DesugarE(e.r)]
    [] e.k = "not" -> ENot(DesugarE(e.e))
    [] e.k = "test" -> ETest(DesugarQ(e.q))
    [] e.k = "cmp" ->
         IF e.op = "<>" THEN DesugarE([e EXCEPT !.op = "!="])
         ELSE IF e.op = "contains" THEN ECmp("in", e.r, e.l)
         ELSE IF e.op \in {"==", "!="} /\ (IsUndef(e.l) # IsUndef(e.r)) /\ (IF IsUndef(e.l) THEN e.r.k ELSE e.l.k) = "q"
              THEN LET qq == IF IsUndef(e.l) THEN e.r.q ELSE e.l.q IN
                   IF e.op = "==" THEN ENot(ETest(qq)) ELSE ETest(qq)     \* comparison with undefined = (negated) existence test
         ELSE e
    [] OTHER -> e
DesugarQ(qq) == [qq EXCEPT !.segs = [i \in 1..Len(qq.segs) |-> [qq.segs[i] EXCEPT !.sels = [j \in 1..Len(qq.segs[i].sels) |->
                   IF qq.segs[i].sels[j].k = "filter" THEN SFilter(DesugarE(qq.segs[i].sels[j].e)) ELSE qq.segs[i].sels[j]]]]]
DesugarAgrees == M!Terminal => \A d \in 1..Len(DocSeq) : EvalCtx(DesugarQ(q), DocSeq[d], TheCtx) = nodes[d]
\* "undefined" desugaring is only claimed for singular queries (a comparison operand)
=============================================================================
