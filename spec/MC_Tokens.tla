------------------------------ MODULE MC_Tokens ------------------------------
(***************************************************************************)
(* C17: renaming the environment's identifier tokens.  The meaning of a    *)
(* program (JsonPath.tla) does not mention spellings, so it is independent *)
(* of the assignment by construction; what varies is the rendering.  A     *)
(* behaviour picks an assignment of spellings to the eight identifiers and *)
(* a program that uses them, renders the program under the assignment and  *)
(* under the default one, and exports both with the expected result.       *)
(***************************************************************************)
EXTENDS Render, Json

CONSTANT Universe    \* "pairs": every ordered pair of identifiers x ordered pair of spellings; "full": seeded full assignments

VARIABLES assign, prog, done
vars == <<assign, prog, done>>

a_ == <<97>>  b_ == <<98>>  c_ == <<99>>  o_ == <<111>>  k_ == <<107>>  v_ == <<118>>  w_ == <<119>>  e1_ == <<101, 49>>
S(t) == Str(t)
\* spellings: 1-3 characters, none shared with the fixed grammar's lexemes; prefix-related pairs included
Pool == { <<43>>, <<37>>, <<37, 37>>, <<37, 37, 37>>, <<167>>, <<167, 167>>, <<163>>, <<8364>>, <<162, 162>>, <<164>>, <<37, 167>>, <<167, 37>>, <<172>>, <<166>>, <<166, 166, 166>> }
Idents == {"root", "self", "key", "ctx", "keys", "fake", "union", "inter"}

At1(name) == OQ(Q("@", <<Child(SName(name))>>))
QAt(segs) == Q("@", segs)
Simple(q) == [first |-> q, rest |-> <<>>]
Programs == {
  Simple(Q("$", <<Child(SName(c_)), Child(SFilter(ECmp("==", At1(a_), OLit(IntV(1)))))>>)),
  Simple(Q("$", <<Child(SName(o_)), Child(SFilter(ECmp("==", OKey, OLit(S(e1_)))))>>)),
  Simple(Q("$", <<Child(SName(c_)), Child(SFilter(ECmp("==", At1(a_), OQ(Q("_", <<Child(SName(v_))>>)))))>>)),
  Simple(Q("$", <<Child(SName(o_)), Child(SKeys)>>)),
  Simple(Q("$", <<Descend(SKeys)>>)),
  Simple(Q("^", <<Child(SFilter(ECmp("==", At1(k_), OLit(IntV(1))))), Child(SName(k_))>>)),
  [first |-> Q("$", <<Child(SName(a_)), Child(SWild)>>), rest |-> <<[op |-> "|", q |-> Q("$", <<Child(SName(b_)), Child(SWild)>>)]>>],
  [first |-> Q("$", <<Child(SName(a_)), Child(SWild)>>), rest |-> <<[op |-> "&", q |-> Q("$", <<Child(SName(b_)), Child(SWild)>>)], [op |-> "|", q |-> Q("^", <<Child(SIndex(0)), Child(SName(k_))>>)]>>],
  Simple(Q("$", <<Child(SName(c_)), Child(SFilter(ETest(QAt(<<Child(SFilter(ECmp("==", At1(a_), OQ(Q("$", <<Child(SName(k_))>>)))))>>))))>>)),
  Simple(Q("$", <<Child(SName(o_)), Child(SFilter(EAnd(ECmp("!=", OKey, OQ(Q("_", <<Child(SName(w_))>>))), ETest(QAt(<<Child(SKeys)>>)))))>>)),
  Simple(Q("$", <<Child(SName(c_)), Child(SFilter(EOr(ENot(ETest(QAt(<<Child(SName(a_))>>))), ECmp(">", OFn("count", <<OQ(QAt(<<Child(SWild)>>))>>), OQ(Q("$", <<Child(SName(k_))>>))))))>>)),
  Simple(Q("$", <<Child(SName(c_)), Child(SFilter(ETest(Q("^", <<Child(SFilter(ECmp("==", At1(k_), OQ(Q("_", <<Child(SName(v_))>>)))))>>))))>>)),
  \* selector-less operands: the whole text of `$` / `^` is the identifier's spelling
  Simple(Q("$", <<Child(SName(c_)), Child(SFilter(EAnd(ETest(Q("$", <<>>)), ETest(QAt(<<Child(SName(a_))>>)))))>>)),
  Simple(Q("$", <<Child(SName(c_)), Child(SFilter(EOr(ETest(Q("^", <<>>)), ETest(QAt(<<Child(SName(a_))>>)))))>>)),
  \* the current key where a value is expected by a typed function
  Simple(Q("$", <<Child(SName(o_)), Child(SFilter(ECmp("==", OFn("length", <<OKey>>), OLit(IntV(2)))))>>)) }

Elems == << Obj(<<a_, b_>>, <<IntV(1), IntV(0)>>), Obj(<<a_>>, <<IntV(2)>>), Arr(<<Obj(<<a_>>, <<IntV(1)>>), Obj(<<a_>>, <<IntV(3)>>)>>), Arr(<<IntV(1), IntV(2)>>), S(a_), Obj(<<>>, <<>>) >>
Names == [i \in 1..Len(Elems) |-> <<101>> \o Decimal(i)]
DocSeq == << Obj(<<k_, c_, o_, a_, b_>>, <<IntV(1), Arr(Elems), Obj(Names, Elems), Arr(<<IntV(1), IntV(2), IntV(3)>>), Arr(<<IntV(3), IntV(1)>>)>>),
             Obj(<<k_, a_>>, <<IntV(2), Arr(<<IntV(1)>>)>>) >>
TheCtx == Obj(<<v_, w_>>, <<IntV(1), S(e1_)>>)

\* the prefix-related and mixed spellings only (the universe of the lexer model MC_Lexer)
PrefixPool == { <<43>>, <<37>>, <<37, 37>>, <<37, 37, 37>>, <<37, 167>>, <<167, 37>> }
Assignments ==
  IF Universe = "pairs"
  THEN {[DefaultTok EXCEPT ![i1] = s1, ![i2] = s2] : i1 \in Idents, i2 \in Idents, s1 \in Pool, s2 \in Pool} \cup {DefaultTok}
  ELSE IF Universe = "prefix"
  THEN {[DefaultTok EXCEPT ![i1] = s1, ![i2] = s2] : i1 \in Idents, i2 \in Idents, s1 \in PrefixPool, s2 \in PrefixPool} \cup {DefaultTok}
  ELSE {}
Distinct8(t) == Cardinality({t[i] : i \in Idents}) = 8

\* the documentation's own example spells the root identifier like the (default) fake root: the two rules then match the
\* same text and the one listed first - ROOT - wins; only the lexer model is consulted for it (MC_Lexer), the property itself
\* speaks of distinct spellings
Colliding == {[DefaultTok EXCEPT !.root = <<94>>], [DefaultTok EXCEPT !.self = <<35>>]}
\* the default spellings handed to other roles (distinct, non-overlapping, but each means something else than by default)
Swaps == {[DefaultTok EXCEPT !.keys = <<35>>, !.key = <<126>>], [DefaultTok EXCEPT !.root = <<64>>, !.self = <<36>>],
          [DefaultTok EXCEPT !.union = <<38>>, !.inter = <<124>>], [DefaultTok EXCEPT !.fake = <<95>>, !.ctx = <<94>>]}
Init == /\ IF Universe = "swaps" THEN assign \in Swaps ELSE
           IF Universe = "collide" THEN assign \in Colliding ELSE
           IF Universe \in {"pairs", "prefix"} THEN assign \in {t \in Assignments : Distinct8(t)}
           ELSE \E n \in 1..200 : assign = [i \in Idents |-> RandomElement(Pool)] /\ Distinct8(assign)
        /\ prog \in (IF Universe = "collide" THEN {pr \in Programs : LET t == RenderCompound(pr.first, pr.rest, StdStyle) IN \A j \in 1..Len(t) : t[j] \notin {94, 35}}
                       ELSE Programs)       \* (with two identifiers spelled alike, only programs that use neither of them through the other's role)
        /\ done = FALSE
Next == ~done /\ done' = TRUE /\ UNCHANGED <<assign, prog>>
Spec == Init /\ [][Next]_vars

St(t) == [StdStyle EXCEPT !.tok = t]
Text(t) == RenderCompound(prog.first, prog.rest, St(t))
\* the meaning is the same under every assignment (it does not mention spellings)
Expected(d) == [i \in 1..Len(Compound(prog.first, prog.rest, DocSeq[d], TheCtx)) |-> Compound(prog.first, prog.rest, DocSeq[d], TheCtx)[i].v]
\* rendering under an assignment that equals the default is the default text
DefaultIsDefault == assign = DefaultTok => Text(assign) = Text(DefaultTok)

ASSUME PrintT(ToJson([docs |-> [d \in 1..Len(DocSeq) |-> [doc |-> DocSeq[d], nodes |-> <<>>]], ctx |-> TheCtx]))
\* the same program in the dotted shorthand (names, wildcard and keys selector after a dot)
DotText(t) == RenderCompound(prog.first, prog.rest, [St(t) EXCEPT !.dot = TRUE])
Export == done => PrintT(ToJson([assign |-> assign, text |-> Text(assign), dtext |-> Text(DefaultTok), dot |-> DotText(assign),
                                  res |-> [d \in 1..Len(DocSeq) |-> Expected(d)]]))
=============================================================================
