------------------------------ MODULE MC_Filter ------------------------------
(***************************************************************************)
(* C02: filter selectors.  The evaluation machine instantiated with        *)
(*  - the comparison table: every ordered pair of the value universe U     *)
(*    (each JSON type, absent, bool/number look-alikes, nested containers) *)
(*    x 6 operators x operand forms (query/query, query/literal, literal/  *)
(*    query, root query, the candidate itself);                            *)
(*  - expression shapes: trees over existence tests, comparisons, function *)
(*    calls and nested filters with ! && || and parentheses, evaluated on  *)
(*    candidate arrays and objects realising many truth assignments;       *)
(*  - the five standard functions, match/search over a regex pool.         *)
(***************************************************************************)
EXTENDS Render, Json

CONSTANT Universe

VARIABLES q, pc, nodes

a_ == <<97>>  b_ == <<98>>  s_ == <<115>>  x_ == <<120>>  y_ == <<121>>  k_ == <<107>>  c_ == <<99>>  o_ == <<111>>
S(t) == Str(t)

\* ---- the value universe of the comparison table ------------------------------
U == << Null, Bool(TRUE), Bool(FALSE), IntV(0), IntV(1), IntV(2), IntV(-1), Num(3), S(<<>>), S(a_), S(b_), S(<<49>>),
        Arr(<<>>), Arr(<<IntV(1)>>), Arr(<<Bool(TRUE)>>), Arr(<<IntV(0)>>), Arr(<<Bool(FALSE)>>),
        Obj(<<>>, <<>>), Obj(<<a_>>, <<IntV(1)>>), Obj(<<a_>>, <<Bool(TRUE)>>), Obj(<<a_, b_>>, <<IntV(1), IntV(2)>>), Obj(<<b_, a_>>, <<IntV(2), IntV(1)>>),
        Arr(<<Arr(<<IntV(1)>>)>>), Arr(<<Arr(<<Bool(TRUE)>>)>>) >>
NU == Len(U)
\* index NU + 1 stands for "absent"
Mem(name, i) == IF i > NU THEN [ks |-> <<>>, vs |-> <<>>] ELSE [ks |-> <<name>>, vs |-> <<U[i]>>]
PairObj(i, j) == Obj(Mem(x_, i).ks \o Mem(y_, j).ks, Mem(x_, i).vs \o Mem(y_, j).vs)
PairsDoc == Arr([n \in 1..((NU + 1) * (NU + 1)) |-> PairObj(((n - 1) \div (NU + 1)) + 1, ((n - 1) % (NU + 1)) + 1)])
SingleDoc == Arr([i \in 1..(NU + 1) |-> Obj(Mem(x_, i).ks, Mem(x_, i).vs)])
RawDoc == Arr(U)
RootDoc(i) == Obj(Mem(k_, i).ks \o <<c_>>, Mem(k_, i).vs \o <<Arr([j \in 1..(NU + 1) |-> Obj(Mem(y_, j).ks, Mem(y_, j).vs)])>>)

Ops == {"==", "!=", "<", "<=", ">", ">="}
Lits == {Null, Bool(TRUE), Bool(FALSE), IntV(0), IntV(1), IntV(2), IntV(-1), Num(3), S(<<>>), S(a_), S(b_), S(<<49>>)}
At1(name) == OQ(Q("@", <<Child(SName(name))>>))
Self == OQ(Q("@", <<>>))
RootK == OQ(Q("$", <<Child(SName(k_))>>))
F(e) == Q("$", <<Child(SFilter(e))>>)
FC(e) == Q("$", <<Child(SName(c_)), Child(SFilter(e))>>)
FO(e) == Q("$", <<Child(SName(o_)), Child(SFilter(e))>>)

\* ---- expression shapes ----------------------------------------------------------
QAt(segs) == Q("@", segs)
ReAdot == Cat(Chr(97), Star(AnyChar))
ReB == Chr(98)
Atoms == {
  ETest(QAt(<<Child(SName(a_))>>)),                       \* existence of a singular query (whatever the value)
  ETest(QAt(<<Child(SWild)>>)),                           \* existence of a non-singular query
  ETest(QAt(<<Descend(SName(a_))>>)),                     \* descendant query
  ETest(Q("$", <<Child(SName(k_))>>)),                    \* root query, true for every candidate
  ETest(Q("$", <<Child(SName(x_))>>)),                    \* root query, false for every candidate
  ECmp("==", At1(a_), OLit(IntV(1))),
  ECmp("<", At1(b_), At1(a_)),
  ECmp("!=", At1(a_), RootK),
  ECmp(">=", OFn("length", <<At1(s_)>>), OLit(IntV(2))),
  ECmp("==", OFn("count", <<OQ(QAt(<<Child(SWild)>>))>>), OLit(IntV(2))),
  EFTest("match", <<At1(s_), ORe(ReAdot, FALSE)>>),
  EFTest("search", <<At1(s_), ORe(ReB, FALSE)>>),
  ECmp("==", OFn("value", <<OQ(QAt(<<Descend(SName(a_))>>))>>), OLit(IntV(1))),
  ETest(QAt(<<Child(SFilter(ECmp("==", At1(a_), RootK)))>>)),     \* nested filter mentioning $ and @
  ECmp("==", OFn("length", <<Self>>), OLit(IntV(2))),             \* @ itself as a function argument
  ECmp("==", OFn("count", <<Self>>), OLit(IntV(1))),
  ECmp("==", OFn("value", <<Self>>), OLit(IntV(0))),
  ETest(QAt(<<>>)),                                               \* bare @: exists for every candidate
  ECmp("==", At1(a_), OLit(Bool(FALSE))),
  ECmp("<=", At1(a_), OLit(IntV(1))) }
AtomsSmall == {
  ETest(QAt(<<Child(SName(a_))>>)),
  ECmp("==", At1(a_), OLit(IntV(1))),
  ETest(QAt(<<Child(SWild)>>)),
  ECmp(">=", OFn("length", <<At1(s_)>>), OLit(IntV(2))),
  ETest(QAt(<<Child(SFilter(ECmp("==", At1(a_), RootK)))>>)) }
Level(A) == A \cup {ENot(e) : e \in A} \cup {EAnd(l, r) : l \in A, r \in A} \cup {EOr(l, r) : l \in A, r \in A}

Elems == << Obj(<<a_, b_, s_>>, <<IntV(1), IntV(0), S(<<97, 98>>)>>),  Obj(<<a_>>, <<IntV(0)>>),
            Obj(<<a_, s_>>, <<Bool(FALSE), S(b_)>>),                   Obj(<<a_, b_>>, <<Null, IntV(2)>>),
            Obj(<<a_, s_>>, <<S(<<>>), S(a_)>>),                       Obj(<<a_, b_>>, <<Arr(<<>>), IntV(2)>>),
            Obj(<<a_>>, <<Obj(<<>>, <<>>)>>),                          Obj(<<>>, <<>>),
            Obj(<<b_, s_>>, <<IntV(2), S(<<97, 98, 97, 98>>)>>),        Arr(<<Obj(<<a_>>, <<IntV(1)>>), Obj(<<a_>>, <<IntV(2)>>)>>),
            Arr(<<IntV(1), IntV(2)>>),                                 IntV(0),
            S(<<97, 98>>),                                             Null,
            Bool(FALSE),                                               Obj(<<a_>>, <<Obj(<<a_>>, <<IntV(1)>>)>>),
            Arr(<<Arr(<<Obj(<<a_>>, <<IntV(1)>>)>>)>>),                Obj(<<a_, b_>>, <<IntV(2), IntV(3)>>) >>
ElemNames == [i \in 1..Len(Elems) |-> <<101>> \o Decimal(i)]
ShapesDoc == Obj(<<k_, c_, o_>>, <<IntV(1), Arr(Elems), Obj(ElemNames, Elems)>>)

\* ---- functions over a regex pool --------------------------------------------------
RePool == { ReAdot, ReB, Plus(ClsT({97, 98}, FALSE, <<97, 98>>)), Alt(Chr(97), Chr(98)), Star(Cat(Chr(97), Chr(98))),
            Cat(Opt(Chr(97)), Chr(98)), AnyChar, ClsT({97}, TRUE, <<97>>), Cat(Chr(97), Cat(Chr(46), Chr(98))),
            Cat(Chr(97), Cat(AnyChar, Chr(98))), Plus(ClsT(97..99, FALSE, <<97, 45, 99>>)),
            \* inside a bracket expression a dot is a dot
            Cat(Chr(97), Cat(ClsT({46}, FALSE, <<46>>), Chr(98))), Plus(ClsT({97, 46}, FALSE, <<97, 46>>)) }
StrDoc == Arr(<<S(<<>>), S(a_), S(b_), S(<<97, 98>>), S(<<98, 97>>), S(<<97, 98, 97, 98>>), S(<<97, 46, 98>>), S(c_), S(<<97, 120, 98>>), S(<<120, 92, 34, 121>>),
               IntV(1), Null, Arr(<<S(a_)>>), Obj(<<s_>>, <<S(<<97, 98>>)>>), Obj(<<s_>>, <<IntV(1)>>), S(<<65, 66>>)>>)
LenDoc == Arr(<<S(<<>>), S(<<233, 128512>>), Arr(<<>>), Arr(<<IntV(1), IntV(2), IntV(3)>>), Obj(<<>>, <<>>), Obj(<<a_, b_>>, <<IntV(1), IntV(2)>>),
               IntV(3), Null, Bool(TRUE), Obj(<<a_>>, <<Arr(<<IntV(1), IntV(2)>>)>>), Obj(<<a_>>, <<S(<<120, 121, 122>>)>>)>>)

QuerySet ==
  CASE Universe = "cmp-pairs" -> {F(ECmp(op, At1(x_), At1(y_))) : op \in Ops}
    [] Universe = "cmp-lits" -> {F(ECmp(op, At1(x_), OLit(l))) : op \in Ops, l \in Lits} \cup {F(ECmp(op, OLit(l), At1(x_))) : op \in Ops, l \in Lits}
                                \* a literal against a literal (booleans and their number look-alikes): decided by the same comparison, not by the host's equality
                                \cup {F(ECmp(op, OLit(l1), OLit(l2))) : op \in {"==", "!=", "<="}, l1 \in {IntV(1), Bool(TRUE), IntV(0), Bool(FALSE)}, l2 \in {IntV(1), Bool(TRUE), Bool(FALSE), Null}}
    [] Universe = "cmp-self" -> {F(ECmp(op, Self, OLit(l))) : op \in Ops, l \in Lits} \cup {F(ECmp(op, OLit(l), Self)) : op \in Ops, l \in Lits}
                                \cup {F(ETest(QAt(<<>>))), F(ENot(ETest(QAt(<<>>))))}
    [] Universe = "cmp-root" -> {FC(ECmp(op, RootK, At1(y_))) : op \in Ops} \cup {FC(ECmp(op, At1(y_), RootK)) : op \in Ops}
                                \* the same root-dependent comparison below ! && || (evaluated on documents whose $.k differ)
                                \cup {FC(ENot(ECmp(op, RootK, At1(y_)))) : op \in {"==", "<"}}
                                \cup {FC(EAnd(ECmp(op, RootK, At1(y_)), ETest(QAt(<<Child(SName(y_))>>)))) : op \in {"==", ">="}}
                                \cup {FC(EOr(ECmp("!=", At1(y_), RootK), ENot(ETest(QAt(<<Child(SName(y_))>>)))))}
    [] Universe = "shapes1" -> {FC(e) : e \in Level(Atoms)} \cup {FO(e) : e \in Level(Atoms)}
    [] Universe = "shapes2" -> {FC(e) : e \in Level(Level(AtomsSmall))}
    [] Universe = "functions" ->
         {F(EFTest(f, <<Self, ORe(r, FALSE)>>)) : f \in {"match", "search"}, r \in RePool}
         \cup {F(EFTest(f, <<At1(s_), ORe(r, FALSE)>>)) : f \in {"match", "search"}, r \in RePool}
         \cup {F(ENot(EFTest("match", <<Self, ORe(r, FALSE)>>))) : r \in RePool}
         \cup {F(ECmp(op, OFn("length", <<Self>>), OLit(IntV(n)))) : op \in {"==", "<", ">="}, n \in {0, 2, 3}}
         \cup {F(ECmp(op, OFn("length", <<At1(a_)>>), OLit(IntV(n)))) : op \in {"==", "!="}, n \in {2, 3}}
         \cup {F(ECmp("==", OFn("count", <<OQ(QAt(<<Child(SWild)>>))>>), OLit(IntV(n)))) : n \in {0, 2, 3}}
         \cup {F(ECmp("==", OFn("count", <<OQ(QAt(<<Descend(SWild)>>))>>), OLit(IntV(n)))) : n \in {0, 1, 3}}
         \* a nodelist keeps a node it visits twice, and count() counts it twice
         \cup {F(ECmp("==", OFn("count", <<OQ(QAt(<<Seg(FALSE, <<SName(a_), SName(a_)>>)>>))>>), OLit(IntV(n)))) : n \in {1, 2}}
         \cup {F(ECmp("==", OFn("count", <<OQ(QAt(<<Seg(FALSE, <<SWild, SIndex(0)>>)>>))>>), OLit(IntV(n)))) : n \in {2, 4}}
         \* a string literal with a backslash immediately followed by a double quote (either quote style has to read it)
         \cup {F(ECmp(op, Self, OLit(S(<<120, 92, 34, 121>>)))) : op \in {"==", "!="}}
         \cup {F(ECmp("==", OFn("value", <<OQ(QAt(<<Child(SWild)>>))>>), OLit(IntV(1)))),
               F(ECmp("==", OFn("value", <<OQ(QAt(<<Child(SName(a_))>>))>>), OFn("value", <<OQ(QAt(<<Descend(SName(a_))>>))>>))),
               F(ECmp("==", OFn("length", <<OFn("value", <<OQ(QAt(<<Child(SName(a_))>>))>>)>>), OLit(IntV(2)))),
               F(ECmp("==", OFn("count", <<Self>>), OLit(IntV(1)))), F(ECmp("!=", OFn("value", <<Self>>), OLit(Null))),
               F(ECmp("==", OFn("length", <<Self>>), OFn("count", <<OQ(QAt(<<Child(SWild)>>))>>)))}

DocSeq ==
  CASE Universe = "cmp-pairs" -> <<PairsDoc>>
    [] Universe = "cmp-lits" -> <<SingleDoc>>
    [] Universe = "cmp-self" -> <<RawDoc, Obj([i \in 1..NU |-> <<107>> \o Decimal(i)], U)>>
    [] Universe = "cmp-root" -> [i \in 1..(NU + 1) |-> RootDoc(i)]
    [] Universe \in {"shapes1", "shapes2"} -> <<ShapesDoc>>
    [] Universe = "functions" -> <<StrDoc, LenDoc>>

StyleSeq == << StdStyle,
               [StdStyle EXCEPT !.q = 34, !.sp = <<32>>, !.paren = "full"],
               [StdStyle EXCEPT !.sp = <<9, 10, 13>>, !.uni = TRUE, !.num = "float"],
               [StdStyle EXCEPT !.num = "Eneg", !.q = 34],
               [StdStyle EXCEPT !.num = "Epos", !.sp = <<32>>] >>      \* integers with an upper-case exponent marker: 1E0

M == INSTANCE EvalMachine WITH Queries <- QuerySet, DocSeq <- DocSeq, Styles <- StyleSeq, Ctx <- Obj(<<>>, <<>>)
Spec == M!Spec
LocOK == M!LocOK
Denotation == M!Denotation
WrongKindSelectsNothing == M!WrongKindSelectsNothing
Terminates == M!Terminates
Export == M!Export
ASSUME PrintT(ToJson([docs |-> M!DocsPlain]))

\* ---- the comparison algebra of RFC 9535 2.3.5.2.2, over the whole universe ---------
Vals == {U[i] : i \in 1..NU} \cup {Nothing}
ASSUME \A a \in Vals, b \in Vals :
         /\ Compare("!=", a, b) = ~Compare("==", a, b)
         /\ Compare("==", a, b) = Compare("==", b, a)
         /\ Compare("<=", a, b) = (Compare("<", a, b) \/ Compare("==", a, b))
         /\ Compare(">=", a, b) = (Compare(">", a, b) \/ Compare("==", a, b))
         /\ Compare(">", a, b) = Compare("<", b, a)
         /\ ~(Compare("<", a, b) /\ Compare("<", b, a))
         /\ (Compare("<", a, b) => a.t = b.t /\ a.t \in {"num", "str"})
         /\ ((a.t = "bool" /\ b.t = "num") => ~Compare("==", a, b) /\ ~Compare("<=", a, b))
         /\ (IsNothing(a) => (Compare("==", a, b) <=> IsNothing(b)))
\* RFC 9535 Table 11 (comparison examples), $ = {"obj": {"x": "y"}, "arr": [2, 3]}
ASSUME LET obj == Obj(<<x_>>, <<S(y_)>>) arr == Arr(<<IntV(2), IntV(3)>>) IN
         /\ Compare("==", Nothing, Nothing) /\ Compare("<=", Nothing, Nothing) /\ ~Compare("==", Nothing, S(<<103>>))
         /\ ~Compare("!=", Nothing, Nothing) /\ Compare("!=", Nothing, S(<<103>>))
         /\ Compare("<=", IntV(1), IntV(2)) /\ ~Compare(">", IntV(1), IntV(2)) /\ ~Compare("==", IntV(13), S(<<49, 51>>))
         /\ Compare("<=", S(a_), S(b_)) /\ ~Compare(">", S(a_), S(b_))
         /\ ~Compare("==", obj, arr) /\ Compare("!=", obj, arr) /\ Compare("==", obj, obj) /\ ~Compare("!=", obj, obj)
         /\ Compare("==", arr, arr) /\ ~Compare("!=", arr, arr) /\ ~Compare("==", obj, IntV(17)) /\ Compare("!=", obj, IntV(17))
         /\ ~Compare("<=", obj, arr) /\ ~Compare("<", obj, arr) /\ Compare("<=", obj, obj) /\ Compare("<=", arr, arr)
         /\ ~Compare("<=", IntV(1), arr) /\ ~Compare(">=", IntV(1), arr) /\ ~Compare(">", IntV(1), arr) /\ ~Compare("<", IntV(1), arr)
         /\ Compare("<=", Bool(TRUE), Bool(TRUE)) /\ ~Compare(">", Bool(TRUE), Bool(TRUE))
=============================================================================
