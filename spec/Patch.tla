------------------------------ MODULE Patch ------------------------------
(***************************************************************************)
(* RFC 6902 JSON Patch as tree surgery on tagged values, plus the two      *)
(* documented non-standard operations addne and addap.  Pure value         *)
(* semantics: a copy is a value, so aliasing in an implementation shows    *)
(* up as a divergence from this specification.                             *)
(***************************************************************************)
EXTENDS Pointer

RECURSIVE SetAt(_, _, _)
\* replace the value at toks (which must resolve) by nv, rebuilding the spine
SetAt(v, toks, nv) ==
  IF toks = <<>> THEN nv
  ELSE LET tok == Head(toks) IN
    IF v.t = "obj" THEN LET i == KeyIndex(v, tok) IN [v EXCEPT !.vs[i] = SetAt(v.vs[i], Tail(toks), nv)]
    ELSE [v EXCEPT !.xs[ToNat(tok) + 1] = SetAt(v.xs[ToNat(tok) + 1], Tail(toks), nv)]

\* mode: "add" (RFC), "addne" (existing object member left untouched),
\*       "addap" (append when the array index cannot be resolved)
OpAddMode(doc, path, val, mode) ==
  IF path = <<>> THEN val
  ELSE LET parent == Resolve(doc, Front(path)) tok == Last(path) IN
    IF IsErr(parent) THEN Err("patch")
    ELSE IF parent.t = "obj" THEN
      LET i == KeyIndex(parent, tok) IN
      IF i = 0 THEN SetAt(doc, Front(path), [parent EXCEPT !.ks = Append(@, tok), !.vs = Append(@, val)])
      ELSE IF mode = "addne" THEN doc
      ELSE SetAt(doc, Front(path), [parent EXCEPT !.vs[i] = val])
    ELSE IF parent.t = "arr" THEN
      IF tok = Dash THEN SetAt(doc, Front(path), [parent EXCEPT !.xs = Append(@, val)])
      ELSE IF IsCanonicalIndex(tok) /\ ToNat(tok) <= Len(parent.xs)
           THEN SetAt(doc, Front(path), [parent EXCEPT !.xs = InsertIdx(@, ToNat(tok) + 1, val)])
      ELSE IF mode = "addap" /\ IsCanonicalIndex(tok)
           THEN SetAt(doc, Front(path), [parent EXCEPT !.xs = Append(@, val)])
           ELSE Err("patch")
    ELSE Err("patch")

OpAdd(doc, path, val) == OpAddMode(doc, path, val, "add")

OpRemove(doc, path) ==
  IF path = <<>> THEN Err("patch")   \* the whole document cannot be removed
  ELSE LET parent == Resolve(doc, Front(path)) tok == Last(path) IN
    IF IsErr(parent) THEN Err("patch")
    ELSE IF IsErr(Step(parent, tok)) THEN Err("patch")
    ELSE IF parent.t = "obj" THEN
      LET i == KeyIndex(parent, tok) IN SetAt(doc, Front(path), [parent EXCEPT !.ks = RemoveIdx(@, i), !.vs = RemoveIdx(@, i)])
    ELSE SetAt(doc, Front(path), [parent EXCEPT !.xs = RemoveIdx(@, ToNat(tok) + 1)])

OpReplace(doc, path, val) ==
  IF IsErr(Resolve(doc, path)) THEN Err("patch") ELSE SetAt(doc, path, val)

OpMove(doc, from, path) ==
  LET v == Resolve(doc, from) IN
  IF IsErr(v) THEN Err("patch")
  ELSE IF IsPrefixOf(from, path) /\ from # path THEN Err("patch")   \* into its own child
  ELSE IF from = path THEN doc
  ELSE LET d1 == OpRemove(doc, from) IN IF IsErr(d1) THEN d1 ELSE OpAdd(d1, path, v)

OpCopy(doc, from, path) == LET v == Resolve(doc, from) IN IF IsErr(v) THEN Err("patch") ELSE OpAdd(doc, path, v)

\* a test on a missing target may fail with either kind of patch error (the
\* property fixes the dedicated kind only for a failed comparison)
OpTest(doc, path, val) ==
  LET v == Resolve(doc, path) IN
  IF IsErr(v) THEN Err("patch-or-test") ELSE IF JsonEq(v, val) THEN doc ELSE Err("test")

OpNames == {"add", "remove", "replace", "move", "copy", "test", "addne", "addap"}

\* operation record: [op, path, from, value] - every field always present
MkOp(op, path, from, value) == [op |-> op, path |-> path, from |-> from, value |-> value]

ApplyOp(doc, op) ==
  CASE op.op = "add" -> OpAdd(doc, op.path, op.value)
    [] op.op = "addne" -> OpAddMode(doc, op.path, op.value, "addne")
    [] op.op = "addap" -> OpAddMode(doc, op.path, op.value, "addap")
    [] op.op = "remove" -> OpRemove(doc, op.path)
    [] op.op = "replace" -> OpReplace(doc, op.path, op.value)
    [] op.op = "move" -> OpMove(doc, op.from, op.path)
    [] op.op = "copy" -> OpCopy(doc, op.from, op.path)
    [] op.op = "test" -> OpTest(doc, op.path, op.value)

RECURSIVE ApplyAll(_, _)
ApplyAll(doc, ops) == IF IsErr(doc) \/ ops = <<>> THEN doc ELSE ApplyAll(ApplyOp(doc, Head(ops)), Tail(ops))
=============================================================================
