----------------------------- MODULE MC_PtrNav -----------------------------
(***************************************************************************)
(* C14: the pointer value as a state machine.  State: the current pointer  *)
(* (sequence of reference tokens).  Actions: Join / Slash (a part given in *)
(* escaped text form: one token, several "/"-separated tokens, or an       *)
(* absolute pointer that replaces the current one) and Parent.             *)
(***************************************************************************)
EXTENDS Pointer, Json

CONSTANTS MaxLen,     \* number of navigation actions per behaviour
          TokChars,   \* max characters per token in start pointers
          MaxToks,    \* max tokens in start pointers
          PartChars   \* max characters of a joined token

VARIABLES ptr0, ptr, hist
vars == <<ptr0, ptr, hist>>

Alphabet == {126, 47, 48, 49, 45, 43, 32, 35, 97, 233, 1634}     \* ~ / 0 1 - + SP # a e-acute, ARABIC-INDIC DIGIT TWO (a digit to the host, not to RFC 6901)
Tokens == SeqsUpTo(Alphabet, TokChars)
\* tokens usable in Join: no leading blank (the property's restriction)
JoinTokens == {t \in SeqsUpTo(Alphabet, PartChars) : t = <<>> \/ t[1] # 32}

\* integer tokens at the ends of the index range and the shortest 16-digit one below zero: in range, so they are read as integers - and are the tokens they spell
LimMax == <<57,48,48,55,49,57,57,50,53,52,55,52,48,57,57,49>>
LimMin == <<45>> \o LimMax
Neg16 == <<45, 49,48,48,48,48,48,48,48,48,48,48,48,48,48,48,48>>
P(str) == str
Probe == LET inner == Obj(<<<<97>>, <<49>>, <<>>, <<48>>>>, <<IntV(1), Arr(<<Null>>), Str(<<120>>), Null>>)      \* (the member "0" holds null: a value, not "missing")
             leaf == Arr(<<IntV(0), inner, Str(<<97, 98>>)>>)
             ks == <<<<97>>, <<48>>, <<49>>, <<126>>, <<47>>, <<>>, <<233>>, <<32>>, <<45>>, <<43>>, <<35>>, <<48, 49>>, <<43, 49>>, <<32, 49>>, <<126, 49>>, <<97, 47>>, <<49, 1634>>, <<49, 50>>, <<35, 97>>>>      \* ("#a" next to "a": a member like any other)
         IN Obj(ks, [i \in 1..Len(ks) |-> IF ks[i] = <<43>> THEN Arr(<<Null>>) ELSE IF i % 3 = 0 THEN inner ELSE leaf])      \* ("+" holds a one-element array)

Parts == {PtrEscape(t) : t \in JoinTokens}                                    \* a single token, escaped
         \cup {PtrEscape(<<97>>) \o <<SLASH>> \o PtrEscape(t) : t \in {<<49>>, <<126>>, <<>>}}   \* two tokens
         \cup {PrintPtr(<<t>>) : t \in {<<97>>, <<49>>, <<47>>, <<>>}}        \* absolute: replaces
         \cup {PrintPtr(<<<<>>, <<97>>>>), PrintPtr(<<<<>>, <<>>>>)}          \* absolute, beginning with empty tokens: "//a", "//"
         \cup {LimMin, Neg16, LimMax}                                          \* single integer tokens at the ends of the index range

ASSUME PrintT(ToJson([probe |-> Probe]))

Observe(p) == [toks |-> p, text |-> PrintPtr(p),
               res |-> LET r == Resolve(Probe, p) IN IF IsErr(r) THEN [ok |-> FALSE, loc |-> <<>>] ELSE [ok |-> TRUE, loc |-> LocOfPtr(Probe, p)]]

\* (two start pointers with a token that reads as a percent-encoded character: three ordinary characters unless URI decoding is asked for)
Init == /\ ptr0 \in SeqsUpTo(Tokens, MaxToks) \cup {<<<<37, 52, 49>>>>, <<<<97>>, <<97, 37, 50, 70, 98>>>>, <<<<97>>, LimMin>>, <<Neg16>>, <<LimMax, <<97>>>>}
        /\ ptr = ptr0
        /\ hist = <<>>

Join(part, how) ==
  /\ Len(hist) < MaxLen
  /\ ptr' = JoinPart(ptr, part)
  /\ hist' = Append(hist, [act |-> how, arg |-> part, arg2 |-> <<>>, single |-> part \in {PtrEscape(t) : t \in JoinTokens},
                           obs |-> Observe(JoinPart(ptr, part))])
  /\ UNCHANGED ptr0

\* join with several parts is the left fold of the single-part join
Join2(p1, p2) ==
  /\ Len(hist) < MaxLen
  /\ ptr' = JoinPart(JoinPart(ptr, p1), p2)
  /\ hist' = Append(hist, [act |-> "join2", arg |-> p1, arg2 |-> p2, single |-> FALSE,
                           obs |-> Observe(JoinPart(JoinPart(ptr, p1), p2))])
  /\ UNCHANGED ptr0

Parent ==
  /\ Len(hist) < MaxLen
  /\ ptr' = ParentPtr(ptr)
  /\ hist' = Append(hist, [act |-> "parent", arg |-> <<>>, arg2 |-> <<>>, single |-> FALSE, obs |-> Observe(ParentPtr(ptr))])
  /\ UNCHANGED ptr0

Parts2 == {PtrEscape(<<97>>), PtrEscape(<<>>), PrintPtr(<<<<49>>>>), PtrEscape(<<126>>)}
Next == (\E part \in Parts : \E how \in {"join", "slash"} : Join(part, how)) \/ Parent
        \/ (\E p1 \in Parts2, p2 \in Parts2 : Join2(p1, p2))
\* a random element, drawn anew at every evaluation: the set mentions the state because TLC evaluates an expression
\* without variables once and for all (a walk would repeat one choice for ever)
Pick(S) == RandomElement(IF Len(hist) >= 0 THEN S ELSE {})
NextSim == \E c \in {Pick(1..5)} :
             IF c = 1 THEN Parent
             ELSE IF c = 2 THEN \E p1 \in {Pick(Parts)}, p2 \in {Pick(Parts)} : Join2(p1, p2)
             ELSE \E part \in {Pick(Parts)} : \E how \in {Pick({"join", "slash"})} : Join(part, how)
Spec == Init /\ [][Next]_vars

\* ---- laws of the design -----------------------------------------------------
RoundTrip == /\ ParsePtr(PrintPtr(ptr)) = ptr
             /\ IsPointerText(PrintPtr(ptr))
             /\ \A i \in 1..Len(ptr) : \A j \in 1..Len(PtrEscape(ptr[i])) : PtrEscape(ptr[i])[j] # SLASH
             /\ \A i \in 1..Len(ptr) : PtrUnescape(PtrEscape(ptr[i])) = ptr[i]
JoinLaws == \A t \in JoinTokens :
              LET q == JoinPart(ptr, PtrEscape(t)) IN
              /\ ParentPtr(q) = ptr
              /\ IsRelativeTo(q, ptr)
              /\ ~IsRelativeTo(ptr, q)
              /\ Resolve(Probe, q) = (LET r == Resolve(Probe, ptr) IN IF IsErr(r) THEN r ELSE Step(r, t))
ParentLaws == ParentPtr(<<>>) = <<>> /\ (ptr # <<>> => JoinPart(ParentPtr(ptr), PtrEscape(Last(ptr))) = ptr)
AbsoluteReplaces == \A t \in {<<97>>, <<>>} : JoinPart(ptr, PrintPtr(<<t>>)) = <<t>>

Export == (Len(hist) = MaxLen) => PrintT(ToJson([start |-> Observe(ptr0), hist |-> hist]))
=============================================================================
