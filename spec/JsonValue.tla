---------------------------- MODULE JsonValue ----------------------------
(***************************************************************************)
(* Tagged JSON values, texts (sequences of code points), locations and     *)
(* tree surgery.  Shared by every other module of the specification.       *)
(*                                                                         *)
(* Encoding decisions (DESIGN.md 3.1): TLC equality is typed, so every     *)
(* field holds values of one shape; numbers are "halves" (h = 2*value) so  *)
(* that 1, 1.0 and 1.5 exist with 32-bit integers; objects keep their      *)
(* members in document order (ks, vs are parallel sequences).              *)
(***************************************************************************)
EXTENDS Naturals, Integers, Sequences, FiniteSets, TLC, SequencesExt

Null == [t |-> "null"]
Nothing == [t |-> "nothing"]              \* absent value (specification only)
Bool(b) == [t |-> "bool", b |-> b]
Num(h) == [t |-> "num", h |-> h]          \* the number h/2
IntV(n) == Num(2 * n)
Str(s) == [t |-> "str", s |-> s]          \* s : Seq(code point)
Arr(xs) == [t |-> "arr", xs |-> xs]
Obj(ks, vs) == [t |-> "obj", ks |-> ks, vs |-> vs]

IsContainer(v) == v.t \in {"arr", "obj"}
IsNothing(v) == v.t = "nothing"

Key(s) == [k |-> "key", s |-> s, i |-> 0]
Idx(i) == [k |-> "idx", s |-> <<>>, i |-> i]

Node(loc, v) == [loc |-> loc, v |-> v]

Min2(a, b) == IF a < b THEN a ELSE b
Max2(a, b) == IF a > b THEN a ELSE b

Flat(seqs) == FoldLeft(LAMBDA acc, s : acc \o s, <<>>, seqs)
MapSeq(f(_), s) == [i \in 1..Len(s) |-> f(s[i])]

IsPrefixOf(p, q) == Len(p) <= Len(q) /\ SubSeq(q, 1, Len(p)) = p

Children(n) ==
  IF n.v.t = "arr" THEN [i \in 1..Len(n.v.xs) |-> Node(Append(n.loc, Idx(i-1)), n.v.xs[i])]
  ELSE IF n.v.t = "obj" THEN [i \in 1..Len(n.v.ks) |-> Node(Append(n.loc, Key(n.v.ks[i])), n.v.vs[i])]
  ELSE <<>>

RECURSIVE Desc(_)
\* descendants-or-self in pre-order (document order).  RFC 9535 2.5.2.2 allows
\* any order in which a node precedes its descendants and array elements keep
\* their order; pre-order is the canonical one used by the specification.
Desc(n) == <<n>> \o Flat(MapSeq(Desc, Children(n)))

KeyIndex(v, name) == IF \E i \in 1..Len(v.ks) : v.ks[i] = name
                     THEN CHOOSE i \in 1..Len(v.ks) : v.ks[i] = name ELSE 0

RECURSIVE At(_, _)
At(v, loc) ==
  IF loc = <<>> THEN v
  ELSE LET st == Head(loc) IN
    IF st.k = "idx" THEN (IF v.t = "arr" /\ st.i < Len(v.xs) THEN At(v.xs[st.i + 1], Tail(loc)) ELSE Nothing)
    ELSE IF v.t = "obj" /\ KeyIndex(v, st.s) # 0 THEN At(v.vs[KeyIndex(v, st.s)], Tail(loc))
    ELSE Nothing

RECURSIVE JsonEq(_, _)
\* deep JSON equality: never identifies a boolean with a number; objects are
\* compared without regard to member order
JsonEq(a, b) ==
  IF a.t # b.t THEN FALSE
  ELSE CASE a.t = "arr" -> Len(a.xs) = Len(b.xs) /\ \A i \in 1..Len(a.xs) : JsonEq(a.xs[i], b.xs[i])
         [] a.t = "obj" -> /\ Len(a.ks) = Len(b.ks)
                           /\ \A i \in 1..Len(a.ks) : \E j \in 1..Len(b.ks) : a.ks[i] = b.ks[j] /\ JsonEq(a.vs[i], b.vs[j])
         [] OTHER -> a = b

RECURSIVE TextLt(_, _)
TextLt(a, b) == IF b = <<>> THEN FALSE ELSE IF a = <<>> THEN TRUE
                ELSE IF Head(a) # Head(b) THEN Head(a) < Head(b) ELSE TextLt(Tail(a), Tail(b))

JsonLt(a, b) ==
  IF a.t = "num" /\ b.t = "num" THEN a.h < b.h
  ELSE IF a.t = "str" /\ b.t = "str" THEN TextLt(a.s, b.s)
  ELSE FALSE

RemoveIdx(s, i) == SubSeq(s, 1, i - 1) \o SubSeq(s, i + 1, Len(s))
InsertIdx(s, i, x) == SubSeq(s, 1, i - 1) \o <<x>> \o SubSeq(s, i, Len(s))

RECURSIVE SetAtLoc(_, _, _)
\* replace the value at an existing location
SetAtLoc(v, loc, nv) ==
  IF loc = <<>> THEN nv
  ELSE LET st == Head(loc) IN
    IF st.k = "idx" THEN [v EXCEPT !.xs[st.i + 1] = SetAtLoc(v.xs[st.i + 1], Tail(loc), nv)]
    ELSE LET i == KeyIndex(v, st.s) IN [v EXCEPT !.vs[i] = SetAtLoc(v.vs[i], Tail(loc), nv)]

\* remove the member or element at an existing non-root location
RemoveAtLoc(v, loc) ==
  LET ploc == Front(loc) st == Last(loc) p == At(v, ploc) IN
  IF st.k = "idx" THEN SetAtLoc(v, ploc, [p EXCEPT !.xs = RemoveIdx(@, st.i + 1)])
  ELSE LET i == KeyIndex(p, st.s) IN
       SetAtLoc(v, ploc, [p EXCEPT !.ks = RemoveIdx(@, i), !.vs = RemoveIdx(@, i)])

\* ---- decimal spelling of integers as code points --------------------------
RECURSIVE Digits(_)
Digits(n) == IF n < 10 THEN <<48 + n>> ELSE Digits(n \div 10) \o <<48 + (n % 10)>>
Decimal(i) == IF i < 0 THEN <<45>> \o Digits(-i) ELSE Digits(i)

IsDigit(c) == c >= 48 /\ c <= 57
IsCanonicalIndex(tok) == /\ Len(tok) >= 1 /\ \A i \in 1..Len(tok) : IsDigit(tok[i])
                         /\ (Len(tok) > 1 => tok[1] # 48)
RECURSIVE ToNat(_)
\* (TLC integers are 32-bit: a token of ten digits or more stands for "beyond every array of these universes")
ToNat(tok) == IF Len(tok) > 9 THEN 1000000000 ELSE IF tok = <<>> THEN 0 ELSE 10 * ToNat(SubSeq(tok, 1, Len(tok) - 1)) + (tok[Len(tok)] - 48)

\* ---- small universes ------------------------------------------------------
\* all sequences over S of length 0..n
SeqsUpTo(S, n) == UNION {[1..k -> S] : k \in 0..n}
\* injective sequences (no repeated element)
InjSeqsUpTo(S, n) == {s \in SeqsUpTo(S, n) : \A i, j \in 1..Len(s) : i # j => s[i] # s[j]}

ArraysOver(S, w) == {Arr(xs) : xs \in SeqsUpTo(S, w)}
ObjectsOver(K, S, w) == UNION {{Obj(ks, vs) : vs \in [1..Len(ks) -> S]} : ks \in InjSeqsUpTo(K, w)}

\* every location of every node of a value, pre-order
LocsOf(v) == MapSeq(LAMBDA n : n.loc, Desc(Node(<<>>, v)))
=============================================================================
