------------------------------ MODULE Pointer ------------------------------
(***************************************************************************)
(* RFC 6901 JSON Pointer: text <-> reference tokens, evaluation as a       *)
(* token-by-token descent machine, and the navigation operations           *)
(* (join / parent / is-relative-to) of the pointer value.                  *)
(* A pointer value is the sequence of its (unescaped) reference tokens;    *)
(* each token is a Text (sequence of code points).                         *)
(***************************************************************************)
EXTENDS JsonValue

SLASH == 47
TILDE == 126
Dash == <<45>>

\* ---- text <-> tokens (RFC 6901 section 3, 4) ------------------------------
PtrEscape(tok) ==
  Flat([i \in 1..Len(tok) |-> IF tok[i] = TILDE THEN <<TILDE, 48>>
                              ELSE IF tok[i] = SLASH THEN <<TILDE, 49>> ELSE <<tok[i]>>])

RECURSIVE PtrUnescape(_)
\* "~1" -> "/", "~0" -> "~"; a single left-to-right scan, which is what the
\* RFC's "first ~1 then ~0" order amounts to on well-formed tokens ("~01" -> "~1")
PtrUnescape(t) ==
  IF t = <<>> THEN <<>>
  ELSE IF t[1] = TILDE /\ Len(t) >= 2 /\ t[2] = 49 THEN <<SLASH>> \o PtrUnescape(SubSeq(t, 3, Len(t)))
  ELSE IF t[1] = TILDE /\ Len(t) >= 2 /\ t[2] = 48 THEN <<TILDE>> \o PtrUnescape(SubSeq(t, 3, Len(t)))
  ELSE <<t[1]>> \o PtrUnescape(Tail(t))

\* a token text is well formed when every "~" is followed by "0" or "1"
RECURSIVE EscapedOK(_)
EscapedOK(t) ==
  IF t = <<>> THEN TRUE
  ELSE IF t[1] = TILDE THEN Len(t) >= 2 /\ t[2] \in {48, 49} /\ EscapedOK(SubSeq(t, 3, Len(t)))
  ELSE t[1] # SLASH /\ EscapedOK(Tail(t))

RECURSIVE SplitOn(_, _)
SplitOn(t, c) ==
  IF \A i \in 1..Len(t) : t[i] # c THEN <<t>>
  ELSE LET i == CHOOSE j \in 1..Len(t) : t[j] = c /\ \A k \in 1..(j-1) : t[k] # c
       IN <<SubSeq(t, 1, i - 1)>> \o SplitOn(SubSeq(t, i + 1, Len(t)), c)

IsPointerText(text) == text = <<>> \/ (text[1] = SLASH /\ \A s \in Range(Tail(SplitOn(text, SLASH))) : EscapedOK(s))

ParsePtr(text) == IF text = <<>> THEN <<>> ELSE MapSeq(PtrUnescape, Tail(SplitOn(text, SLASH)))
PrintPtr(toks) == Flat([i \in 1..Len(toks) |-> <<SLASH>> \o PtrEscape(toks[i])])

\* the pointer of a location (member names verbatim, indices in decimal)
TokensOf(loc) == [i \in 1..Len(loc) |-> IF loc[i].k = "idx" THEN Decimal(loc[i].i) ELSE loc[i].s]

\* ---- evaluation (RFC 6901 section 4) --------------------------------------
Err(kind) == [t |-> "error", kind |-> kind]
IsErr(v) == v.t = "error"

Step(v, tok) ==
  CASE v.t = "obj" -> LET i == KeyIndex(v, tok) IN IF i = 0 THEN Err("key") ELSE v.vs[i]
    [] v.t = "arr" -> IF IsCanonicalIndex(tok) /\ ToNat(tok) < Len(v.xs) THEN v.xs[ToNat(tok) + 1]
                      ELSE IF IsCanonicalIndex(tok) \/ tok = Dash THEN Err("index") ELSE Err("type")
    [] OTHER -> Err("type")

RECURSIVE Resolve(_, _)
Resolve(v, toks) == IF IsErr(v) \/ toks = <<>> THEN v ELSE Resolve(Step(v, Head(toks)), Tail(toks))

\* location reached by a resolvable pointer (so that identity can be stated)
RECURSIVE LocOfPtr(_, _)
LocOfPtr(v, toks) ==
  IF toks = <<>> THEN <<>>
  ELSE LET tok == Head(toks) IN
    IF v.t = "obj" THEN <<Key(tok)>> \o LocOfPtr(v.vs[KeyIndex(v, tok)], Tail(toks))
    ELSE <<Idx(ToNat(tok))>> \o LocOfPtr(v.xs[ToNat(tok) + 1], Tail(toks))

\* ---- navigation on pointer values -----------------------------------------
\* join with a part given in escaped (pointer text) form; a part that starts
\* with "/" replaces the pointer, otherwise its "/"-separated tokens are appended
JoinPart(p, part) == IF part # <<>> /\ part[1] = SLASH THEN ParsePtr(part)
                     ELSE p \o MapSeq(PtrUnescape, SplitOn(part, SLASH))
ParentPtr(p) == IF p = <<>> THEN <<>> ELSE Front(p)
IsRelativeTo(p, q) == Len(q) < Len(p) /\ SubSeq(p, 1, Len(q)) = q   \* p is strictly below q
=============================================================================
