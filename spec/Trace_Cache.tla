----------------------------- MODULE Trace_Cache -----------------------------
(***************************************************************************)
(* Trace validation of the filter cache discipline (C09), against events   *)
(* emitted by the guarded hooks in jsonpath/_verif.py while the histories  *)
(* of MC_Sessions are replayed into the real generators.                   *)
(* One ndjson line per history: [id, events]; events are                   *)
(*   [e |-> "created", rid, cell, fresh]   a resolution built a memo cell   *)
(*   [e |-> "cell", cell, owner, reader, hit]  a cell was read or written   *)
(* The discipline (MC_Sessions: CacheTransparency, OneWriter): a cell      *)
(* belongs to exactly one resolution, is written once, is read only after  *)
(* it was written and only while evaluating a candidate of its own         *)
(* resolution.                                                             *)
(***************************************************************************)
EXTENDS Naturals, Sequences, FiniteSets, TLC, Json, IOUtils, TLCExt

Recs == ndJsonDeserialize(IOEnv.TRACE_FILE)

VARIABLES i, l, written, verdict
vars == <<i, l, written, verdict>>

Init == i \in 1..Len(Recs) /\ l = 1 /\ written = {} /\ verdict = "?"

Clause(ev) ==
  IF ev.e = "created" THEN (IF ev.fresh THEN "" ELSE "cell-reused-by-a-later-resolution")
  ELSE IF ev.owner = 0 THEN "cell-not-created-by-any-resolution"
  ELSE IF ev.reader # ev.owner THEN "cell-accessed-by-another-resolution"
  ELSE IF ev.hit /\ ev.cell \notin written THEN "read-before-written"
  ELSE IF ~ev.hit /\ ev.cell \in written THEN "written-twice"
  ELSE ""

Consume ==
  /\ verdict = "?"
  /\ l <= Len(Recs[i].events)
  /\ LET ev == Recs[i].events[l] c == Clause(ev) IN
       /\ verdict' = IF c = "" THEN "?" ELSE "reject"
       /\ written' = IF ev.e = "cell" THEN written \cup {ev.cell} ELSE written
       /\ IF c # "" THEN PrintT(ToJson([reject |-> Recs[i].id, at |-> l, why |-> c])) ELSE TRUE
  /\ l' = l + 1
  /\ UNCHANGED i
Finish == /\ verdict = "?" /\ l > Len(Recs[i].events) /\ verdict' = "accepted" /\ UNCHANGED <<i, l, written>>
Next == Consume \/ Finish
Spec == Init /\ [][Next]_vars /\ WF_vars(Next)
Verdicts == <>(verdict \in {"reject", "accepted"})
=============================================================================
