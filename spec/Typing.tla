------------------------------ MODULE Typing ------------------------------
(***************************************************************************)
(* RFC 9535 section 2.4.3 well-typedness of function expressions and the   *)
(* syntactic side conditions of sections 2.1 - 2.5 that a query must meet  *)
(* to be accepted, written from the RFC text.                              *)
(*   ValueType    a JSON value or Nothing     LogicalType   true / false   *)
(*   NodesType    a node list                                              *)
(***************************************************************************)
EXTENDS JsonPath

FnSig(f) ==
  CASE f = "length" -> [params |-> <<"value">>, ret |-> "value"]
    [] f = "count" -> [params |-> <<"nodes">>, ret |-> "value"]
    [] f = "match" -> [params |-> <<"value", "value">>, ret |-> "logical"]
    [] f = "search" -> [params |-> <<"value", "value">>, ret |-> "logical"]
    [] f = "value" -> [params |-> <<"nodes">>, ret |-> "value"]
KnownFns == {"length", "count", "match", "search", "value"}

\* integer limits: lo..hi for indices and slice bounds; "big" selectors are spelled relative
\* to the default limit 2^53 - 1 (off <= 0 is inside, off > 0 outside)
RECURSIVE WTQuery(_, _), WTExpr(_, _), FnOK(_, _), ArgOK(_, _, _), Comparable(_, _)

InRange(i, lim) == i >= lim.lo /\ i <= lim.hi
OptInRange(o, lim) == o = <<>> \/ InRange(o[1], lim)

SelOK(s, lim) ==
  CASE s.k = "index" -> InRange(s.i, lim)
    [] s.k = "slice" -> OptInRange(s.lo, lim) /\ OptInRange(s.hi, lim) /\ OptInRange(s.st, lim)
    [] s.k = "filter" -> WTExpr(s.e, lim)
    [] s.k = "raw" -> s.ok      \* injected text carries its own verdict (leading zero, empty, beyond 2^53-1, ...)
    [] OTHER -> TRUE

WTQuery(q, lim) == \A i \in 1..Len(q.segs) : Len(q.segs[i].sels) >= 1 /\ \A j \in 1..Len(q.segs[i].sels) : SelOK(q.segs[i].sels[j], lim)

FnOK(x, lim) == /\ x.f \in KnownFns
                /\ Len(x.args) = Len(FnSig(x.f).params)
                /\ \A i \in 1..Len(x.args) : ArgOK(x.args[i], FnSig(x.f).params[i], lim)

\* what may be passed for a parameter of each declared type (RFC 9535 2.4.3, incl. the conversions)
ArgOK(a, typ, lim) ==
  CASE typ = "value" -> \/ a.k \in {"lit", "re"}
                        \/ (a.k = "q" /\ IsSingular(a.q) /\ WTQuery(a.q, lim))
                        \/ (a.k = "fn" /\ FnOK(a, lim) /\ FnSig(a.f).ret = "value")
    [] typ = "nodes" -> \/ (a.k = "q" /\ WTQuery(a.q, lim))
                        \/ (a.k = "fn" /\ FnOK(a, lim) /\ FnSig(a.f).ret = "nodes")
    [] typ = "logical" -> \/ (a.k = "q" /\ WTQuery(a.q, lim))
                          \/ (a.k = "fn" /\ FnOK(a, lim) /\ FnSig(a.f).ret \in {"logical", "nodes"})
                          \/ (a.k = "expr" /\ WTExpr(a.e, lim))

Comparable(x, lim) ==
  CASE x.k = "lit" -> TRUE
    [] x.k = "q" -> IsSingular(x.q) /\ WTQuery(x.q, lim)
    [] x.k = "fn" -> FnOK(x, lim) /\ FnSig(x.f).ret = "value"
    [] OTHER -> FALSE

WTExpr(e, lim) ==
  CASE e.k \in {"or", "and"} -> WTExpr(e.l, lim) /\ WTExpr(e.r, lim)
    [] e.k = "not" -> WTExpr(e.e, lim)
    [] e.k = "paren" -> WTExpr(e.e, lim)
    [] e.k = "test" -> WTQuery(e.q, lim)
    [] e.k = "ftest" -> FnOK([f |-> e.f, args |-> e.args], lim) /\ FnSig(e.f).ret \in {"logical", "nodes"}
    [] e.k = "cmp" -> e.op \in {"==", "!=", "<", "<=", ">", ">=", "<>"} /\ Comparable(e.l, lim) /\ Comparable(e.r, lim)     \* "<>" is the documented alias of "!="
    [] e.k = "litexpr" -> FALSE       \* a literal that is not compared
    [] OTHER -> FALSE

Accepts(q, lim) == WTQuery(q, lim)
=============================================================================
