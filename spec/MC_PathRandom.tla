---------------------------- MODULE MC_PathRandom ----------------------------
(***************************************************************************)
(* Seeded random walks through the evaluation machine: the first step      *)
(* draws a random document (depth <= MaxDepth, arrays and objects of up to *)
(* 4 entries over the delicate names and scalars) and a random query       *)
(* (1..MaxSegs segments, child or descendant, bracketed lists, every       *)
(* selector kind; with WithFilters also random filter expressions); the    *)
(* following steps apply the segments one by one.  Used by the thorough    *)
(* tiers of C01 / C02 to leave the hand-shaped universes.                  *)
(* (TLC computes initial states once, so all randomness is in the steps;   *)
(*  sequences are built with Append because function constructors are      *)
(*  evaluated lazily and would re-draw their elements.)                     *)
(***************************************************************************)
EXTENDS Render, Json

CONSTANTS MaxDepth, MaxSegs, WithFilters, Ext      \* Ext: also draw the documented non-standard constructs (C13)

VARIABLES doc, q, pc, nodes
vars == <<doc, q, pc, nodes>>

a_ == <<97>>  b_ == <<98>>  c_ == <<99>>
NamePool == {a_, b_, c_, <<>>, <<49>>, <<233>>, <<39>>, <<97, 92>>, <<97, 32, 98>>, <<128512>>, <<48>>, <<45, 49>>}
\* with extensions, membership tests are drawn: no booleans then (the statement leaves the equality of `in` open)
Scalars == IF Ext THEN {Null, IntV(0), IntV(1), IntV(2), IntV(-1), Num(3), Str(<<>>), Str(a_), Str(b_), Str(<<97, 98>>), Str(<<49>>)}
           ELSE {Null, Bool(TRUE), Bool(FALSE), IntV(0), IntV(1), IntV(2), IntV(-1), Num(3), Str(<<>>), Str(a_), Str(b_), Str(<<97, 98>>), Str(<<49>>)}
TheCtx == Obj(<<a_, b_>>, <<IntV(1), Arr(<<IntV(1), Str(a_)>>)>>)
Unset == [t |-> "unset"]

RECURSIVE RandVal(_), RandSeq(_, _), RandNames(_, _)
RandSeq(n, d) == IF n = 0 THEN <<>> ELSE Append(RandSeq(n - 1, d), RandVal(d))
RandNames(n, avail) == IF n = 0 THEN <<>> ELSE LET x == RandomElement(avail) IN <<x>> \o RandNames(n - 1, avail \ {x})
RandVal(d) ==
  LET c == RandomElement(1..6) IN
  IF d = 0 \/ c <= 2 THEN RandomElement(Scalars)
  ELSE IF c <= 4 THEN Arr(RandSeq(RandomElement(0..4), d - 1))
  ELSE LET n == RandomElement(0..4) IN Obj(RandNames(n, NamePool), RandSeq(n, d - 1))

RECURSIVE DocNames(_)
DocNames(v) == IF v.t = "obj" THEN Range(v.ks) \cup UNION {DocNames(v.vs[i]) : i \in 1..Len(v.vs)}
               ELSE IF v.t = "arr" THEN UNION {DocNames(v.xs[i]) : i \in 1..Len(v.xs)} ELSE {}

RECURSIVE RandSeq0(_)
RandSeq0(n) == IF n = 0 THEN <<>> ELSE Append(RandSeq0(n - 1), RandomElement({IntV(1), IntV(2), Str(a_), Str(b_)}))
RandOpt(S) == IF RandomElement(1..3) = 1 THEN <<>> ELSE <<RandomElement(S)>>
RECURSIVE RandExpr(_), RandSels(_, _, _), RandSegs(_, _, _)
RandSingular == LET k == RandomElement(1..4) IN
                IF k = 1 THEN Q("@", <<>>) ELSE IF k = 2 THEN Q("@", <<Child(SName(RandomElement({a_, b_, c_})))>>)
                ELSE IF k = 3 THEN Q("@", <<Child(SIndex(RandomElement({0, 1, -1})))>>) ELSE Q("$", <<Child(SName(RandomElement({a_, b_})))>>)
RandLit == OLit(RandomElement(Scalars))
RandOperand == LET k == RandomElement(1..(IF Ext THEN 9 ELSE 6)) IN
               IF k <= 3 THEN OQ(RandSingular) ELSE IF k <= 5 THEN RandLit
               ELSE IF k = 7 THEN OKey ELSE IF k = 8 THEN OQ(Q("_", <<Child(SName(RandomElement({a_, b_, c_})))>>)) ELSE IF k = 9 THEN OUndef
               ELSE OFn(RandomElement({"length", "count", "value"}),
                        <<IF RandomElement(1..2) = 1 THEN OQ(RandSingular) ELSE OQ(Q("@", <<Child(SWild)>>))>>)
FixFn(x) == IF x.k = "fn" /\ x.f = "length" /\ ~IsSingular(x.args[1].q) THEN OFn("count", x.args) ELSE x
RandExpr(d) ==
  LET k == RandomElement(1..8) IN
  IF d = 0 \/ k <= 4 THEN
     (IF RandomElement(1..3) = 1 THEN ETest(IF RandomElement(1..2) = 1 THEN RandSingular ELSE Q("@", <<Seg(RandomElement(BOOLEAN), <<SWild>>)>>))
      ELSE IF Ext /\ RandomElement(1..4) = 1
           THEN (LET item == IF RandomElement(1..2) = 1 THEN OLit(RandomElement({IntV(1), IntV(2), Str(a_), Str(b_), Str(<<>>)})) ELSE OQ(RandSingular)
                     cont == IF RandomElement(1..2) = 1 THEN OList(RandSeq0(RandomElement(0..3))) ELSE OQ(RandSingular)
                 IN IF RandomElement(1..2) = 1 THEN ECmp("in", item, cont) ELSE ECmp("contains", cont, item))
      ELSE ECmp(RandomElement(IF Ext THEN {"==", "!=", "<", "<=", ">", ">=", "<>"} ELSE {"==", "!=", "<", "<=", ">", ">="}), FixFn(RandOperand), FixFn(RandOperand)))
  ELSE IF k = 5 THEN ENot(RandExpr(d - 1))
  ELSE IF k <= 7 THEN (IF RandomElement(1..2) = 1 THEN EAnd(RandExpr(d - 1), RandExpr(d - 1)) ELSE EOr(RandExpr(d - 1), RandExpr(d - 1)))
  ELSE ETest(Q("@", <<Child(SFilter(RandExpr(0)))>>))

\* names are mostly drawn from the names that occur in the document, so that queries select something
RandSel(names) == LET k == RandomElement(1..(IF WithFilters THEN (IF Ext THEN 8 ELSE 7) ELSE 5)) IN
           IF k = 1 THEN SName(RandomElement(NamePool)) ELSE IF k = 2 THEN SIndex(RandomElement(-3..3))
           ELSE IF k = 3 THEN SSlice(RandOpt(-5..5), RandOpt(-5..5), RandOpt(-3..3)) ELSE IF k = 4 THEN SWild
           ELSE IF k = 5 THEN SName(RandomElement(names \cup {a_})) ELSE IF k = 8 THEN SKeys ELSE SFilter(RandExpr(2))
RandSels(n, acc, names) == IF n = 0 THEN acc ELSE RandSels(n - 1, Append(acc, RandSel(names)), names)
RandSegs(n, acc, names) == IF n = 0 THEN acc
                    ELSE RandSegs(n - 1, Append(acc, Seg(RandomElement(1..4) = 1, RandSels(IF RandomElement(1..4) = 1 THEN 2 ELSE 1, <<>>, names))), names)

Init == doc = Unset /\ q = Unset /\ pc = 0 /\ nodes = <<>>
Choose == /\ doc = Unset
          /\ \E d \in {RandVal(MaxDepth)} : \E qq \in {Q(IF Ext /\ RandomElement(1..6) = 1 THEN "^" ELSE "$", RandSegs(RandomElement(1..MaxSegs), <<>>, DocNames(d)))} :
               /\ IsContainer(d) \/ d.t # "str"        \* a root-level JSON string is read as JSON text by the API
               /\ doc' = d /\ q' = qq /\ nodes' = StartNodes(qq, RootEnv(d, TheCtx))
          /\ pc' = 0
Segment == /\ doc # Unset /\ pc < Len(q.segs)
           /\ nodes' = ApplySegment(q.segs[pc + 1], nodes, RootEnv(doc, TheCtx))
           /\ pc' = pc + 1
           /\ UNCHANGED <<doc, q>>
Next == Choose \/ Segment
Spec == Init /\ [][Next]_vars

Terminal == doc # Unset /\ pc = Len(q.segs)
LocOK == (doc # Unset /\ q.root = "$") => \A i \in 1..Len(nodes) : (\A j \in 1..Len(nodes[i].loc) : nodes[i].loc[j].k # "kname") => At(doc, nodes[i].loc) = nodes[i].v
RECURSIVE RunDirect(_, _, _, _)
RunDirect(segs, k, ns, env) == IF k > Len(segs) THEN ns ELSE RunDirect(segs, k + 1, SegDirect(segs[k], ns, env), env)
Denotation == Terminal => /\ nodes = EvalCtx(q, doc, TheCtx)
                          /\ nodes = RunDirect(q.segs, 1, StartNodes(q, RootEnv(doc, TheCtx)), RootEnv(doc, TheCtx))
Styles == IF Ext THEN << StdStyle, [StdStyle EXCEPT !.words = TRUE, !.ne = <<60, 62>>, !.nil = <<110, 105, 108>>, !.undef = <<109, 105, 115, 115, 105, 110, 103>>, !.bare = TRUE, !.rootless = TRUE, !.dot = TRUE] >>
          ELSE << StdStyle, [StdStyle EXCEPT !.q = 34, !.sp = <<32>>, !.dot = TRUE, !.paren = "full"] >>
Export == Terminal => PrintT(ToJson([q |-> q, doc |-> doc, ctx |-> TheCtx, texts |-> [s \in 1..2 |-> Render(q, Styles[s])],
                                      res |-> [i \in 1..Len(nodes) |-> nodes[i].loc], vals |-> [i \in 1..Len(nodes) |-> nodes[i].v]]))
=============================================================================
