---------------------------- MODULE MC_PathRandom ----------------------------
(***************************************************************************)
(* Seeded random walks through the evaluation machine: the first step      *)
(* draws a random document (depth <= MaxDepth, arrays and objects of up to *)
(* 4 entries over the delicate names and scalars) and a random query       *)
(* (1..MaxSegs segments, child or descendant, bracketed lists, every       *)
(* selector kind; with WithFilters also random filter expressions); the    *)
(* following steps apply the segments one by one.  Used by the thorough    *)
(* tiers of C01 / C02 to leave the hand-shaped universes.                  *)
(* (TLC computes initial states once, so all randomness is in the steps;   *)
(*  sequences are built with Append because function constructors are      *)
(*  evaluated lazily and would re-draw their elements.)                     *)
(***************************************************************************)
EXTENDS Render, Json

CONSTANTS MaxDepth, MaxSegs, WithFilters

VARIABLES doc, q, pc, nodes
vars == <<doc, q, pc, nodes>>

a_ == <<97>>  b_ == <<98>>  c_ == <<99>>
NamePool == {a_, b_, c_, <<>>, <<49>>, <<233>>, <<39>>, <<97, 92>>, <<97, 32, 98>>, <<128512>>, <<48>>, <<45, 49>>}
Scalars == {Null, Bool(TRUE), Bool(FALSE), IntV(0), IntV(1), IntV(2), IntV(-1), Num(3), Str(<<>>), Str(a_), Str(b_), Str(<<97, 98>>), Str(<<49>>)}
Unset == [t |-> "unset"]

RECURSIVE RandVal(_), RandSeq(_, _), RandNames(_, _)
RandSeq(n, d) == IF n = 0 THEN <<>> ELSE Append(RandSeq(n - 1, d), RandVal(d))
RandNames(n, avail) == IF n = 0 THEN <<>> ELSE LET x == RandomElement(avail) IN <<x>> \o RandNames(n - 1, avail \ {x})
RandVal(d) ==
  LET c == RandomElement(1..6) IN
  IF d = 0 \/ c <= 2 THEN RandomElement(Scalars)
  ELSE IF c <= 4 THEN Arr(RandSeq(RandomElement(0..4), d - 1))
  ELSE LET n == RandomElement(0..4) IN Obj(RandNames(n, NamePool), RandSeq(n, d - 1))

RECURSIVE DocNames(_)
DocNames(v) == IF v.t = "obj" THEN Range(v.ks) \cup UNION {DocNames(v.vs[i]) : i \in 1..Len(v.vs)}
               ELSE IF v.t = "arr" THEN UNION {DocNames(v.xs[i]) : i \in 1..Len(v.xs)} ELSE {}

RandOpt(S) == IF RandomElement(1..3) = 1 THEN <<>> ELSE <<RandomElement(S)>>
RECURSIVE RandExpr(_), RandSels(_, _, _), RandSegs(_, _, _)
RandSingular == LET k == RandomElement(1..4) IN
                IF k = 1 THEN Q("@", <<>>) ELSE IF k = 2 THEN Q("@", <<Child(SName(RandomElement({a_, b_, c_})))>>)
                ELSE IF k = 3 THEN Q("@", <<Child(SIndex(RandomElement({0, 1, -1})))>>) ELSE Q("$", <<Child(SName(RandomElement({a_, b_})))>>)
RandLit == OLit(RandomElement(Scalars))
RandOperand == LET k == RandomElement(1..6) IN
               IF k <= 3 THEN OQ(RandSingular) ELSE IF k <= 5 THEN RandLit
               ELSE OFn(RandomElement({"length", "count", "value"}),
                        <<IF RandomElement(1..2) = 1 THEN OQ(RandSingular) ELSE OQ(Q("@", <<Child(SWild)>>))>>)
FixFn(x) == IF x.k = "fn" /\ x.f = "length" /\ ~IsSingular(x.args[1].q) THEN OFn("count", x.args) ELSE x
RandExpr(d) ==
  LET k == RandomElement(1..8) IN
  IF d = 0 \/ k <= 4 THEN
     (IF RandomElement(1..3) = 1 THEN ETest(IF RandomElement(1..2) = 1 THEN RandSingular ELSE Q("@", <<Seg(RandomElement(BOOLEAN), <<SWild>>)>>))
      ELSE ECmp(RandomElement({"==", "!=", "<", "<=", ">", ">="}), FixFn(RandOperand), FixFn(RandOperand)))
  ELSE IF k = 5 THEN ENot(RandExpr(d - 1))
  ELSE IF k <= 7 THEN (IF RandomElement(1..2) = 1 THEN EAnd(RandExpr(d - 1), RandExpr(d - 1)) ELSE EOr(RandExpr(d - 1), RandExpr(d - 1)))
  ELSE ETest(Q("@", <<Child(SFilter(RandExpr(0)))>>))

\* names are mostly drawn from the names that occur in the document, so that queries select something
RandSel(names) == LET k == RandomElement(1..(IF WithFilters THEN 7 ELSE 5)) IN
           IF k = 1 THEN SName(RandomElement(NamePool)) ELSE IF k = 2 THEN SIndex(RandomElement(-3..3))
           ELSE IF k = 3 THEN SSlice(RandOpt(-5..5), RandOpt(-5..5), RandOpt(-3..3)) ELSE IF k = 4 THEN SWild
           ELSE IF k = 5 THEN SName(RandomElement(names \cup {a_})) ELSE SFilter(RandExpr(2))
RandSels(n, acc, names) == IF n = 0 THEN acc ELSE RandSels(n - 1, Append(acc, RandSel(names)), names)
RandSegs(n, acc, names) == IF n = 0 THEN acc
                    ELSE RandSegs(n - 1, Append(acc, Seg(RandomElement(1..4) = 1, RandSels(IF RandomElement(1..4) = 1 THEN 2 ELSE 1, <<>>, names))), names)

Init == doc = Unset /\ q = Unset /\ pc = 0 /\ nodes = <<>>
Choose == /\ doc = Unset
          /\ \E d \in {RandVal(MaxDepth)} : \E qq \in {Q("$", RandSegs(RandomElement(1..MaxSegs), <<>>, DocNames(d)))} :
               /\ IsContainer(d) \/ d.t # "str"        \* a root-level JSON string is read as JSON text by the API
               /\ doc' = d /\ q' = qq /\ nodes' = <<Node(<<>>, d)>>
          /\ pc' = 0
Segment == /\ doc # Unset /\ pc < Len(q.segs)
           /\ nodes' = ApplySegment(q.segs[pc + 1], nodes, RootEnv(doc, Obj(<<>>, <<>>)))
           /\ pc' = pc + 1
           /\ UNCHANGED <<doc, q>>
Next == Choose \/ Segment
Spec == Init /\ [][Next]_vars

Terminal == doc # Unset /\ pc = Len(q.segs)
LocOK == doc # Unset => \A i \in 1..Len(nodes) : At(doc, nodes[i].loc) = nodes[i].v
RECURSIVE RunDirect(_, _, _, _)
RunDirect(segs, k, ns, env) == IF k > Len(segs) THEN ns ELSE RunDirect(segs, k + 1, SegDirect(segs[k], ns, env), env)
Denotation == Terminal => /\ nodes = Eval(q, doc)
                          /\ nodes = RunDirect(q.segs, 1, <<Node(<<>>, doc)>>, RootEnv(doc, Obj(<<>>, <<>>)))
Styles == << StdStyle, [StdStyle EXCEPT !.q = 34, !.sp = <<32>>, !.dot = TRUE, !.paren = "full"] >>
Export == Terminal => PrintT(ToJson([q |-> q, doc |-> doc, texts |-> [s \in 1..2 |-> Render(q, Styles[s])], res |-> [i \in 1..Len(nodes) |-> nodes[i].loc]]))
=============================================================================
