--------------------------- MODULE Trace_ParseBack ---------------------------
(***************************************************************************)
(* Parse o Render = identity, on recorded pairs: each ndjson line carries  *)
(* a program of the specification (first operand and compound rest, as     *)
(* exported by the MC_* modules) and the syntax tree the real parser built *)
(* from one of the program's renderings.  ToQuery of the tree must be the  *)
(* program (up to what the parser does not keep - ParseBack.NormQ).        *)
(***************************************************************************)
EXTENDS ParseBack, Json, IOUtils, TLCExt

Recs == ndJsonDeserialize(IOEnv.TRACE_FILE)

VARIABLES i, state
vars == <<i, state>>
Init == i \in 1..Len(Recs) /\ state = "none"
Judge ==
  /\ state = "none"
  /\ LET ok == RoundTrip(Recs[i].tree, Recs[i].first, Recs[i].rest) IN
       /\ state' = IF ok THEN "accepted" ELSE "reject"
       /\ IF ~ok THEN PrintT(ToJson([reject |-> Recs[i].id, why |-> "parsed-tree-is-not-the-rendered-program",
                                      parsed |-> AssocQ(ToQuery(Recs[i].tree.first)), program |-> AssocQ(NormQ(Recs[i].first))])) ELSE TRUE
  /\ UNCHANGED i
Next == Judge
Spec == Init /\ [][Next]_vars /\ WF_vars(Next)
Verdicts == <>(state \in {"reject", "accepted"})
=============================================================================
