------------------------------- MODULE MC_Cli -------------------------------
(***************************************************************************)
(* C18: the command-line tool as a phase machine                           *)
(*   args -> read expression -> compile -> load document -> evaluate ->    *)
(*   write -> exit                                                         *)
(* over every option combination of each sub-command x expression classes  *)
(* x document classes.  Each phase either succeeds or ends the run with    *)
(* exit status 1, a one-line message on standard error and - only when     *)
(* --debug was given - a traceback.  No combination reaches "crash".       *)
(***************************************************************************)
EXTENDS Naturals, Sequences, FiniteSets, TLC, Json

VARIABLES cmd, opts, expr, doc, phase, exit, stderrLines, traceback, wrote
vars == <<cmd, opts, expr, doc, phase, exit, stderrLines, traceback, wrote>>

Cmds == {"path", "pointer", "patch"}
\* expression classes per sub-command; "ok*" classes succeed, the others name the library error
ExprClasses(c) ==
  CASE c = "path" -> {"ok", "ok-filter", "ok-escape", "ok-empty-result", "ok-empty-query", "ok-union", "ok-intersection", "ok-multiline", "ok-membership", "huge-literal", "syntax", "type", "name", "index", "illtyped-only-when-checked", "unterminated", "bad-regex"}
    [] c = "pointer" -> {"ok", "ok-root", "ok-escape", "ok-uri", "ok-nonascii", "ok-trailing-space", "unresolvable-key", "unresolvable-index", "into-scalar", "no-leading-slash"}
    [] c = "patch" -> {"ok", "ok-root", "ok-empty", "ok-escape", "non-object-member", "test-fails", "missing-target", "not-an-array", "malformed-json", "unknown-op", "missing-member", "bad-pointer", "undecodable"}
\* ("object-overflowing-number": legal JSON numbers beyond the range of a double, which the host reads as infinities)
DocClasses == {"object", "array", "json-string", "deep-array", "object-utf16", "object-utf8-bom", "object-overflowing-number", "malformed", "malformed-scalar", "undecodable", "empty-file"}

OptSet(c) == [debug : BOOLEAN, pretty : BOOLEAN, nue : BOOLEAN,                    \* global options
              inline : IF c = "patch" THEN {FALSE} ELSE BOOLEAN,                   \* expression inline or from a file
              stdin : BOOLEAN, outfile : BOOLEAN,                                  \* document from stdin / output to a file
              flag : BOOLEAN]                                                      \* --no-type-checks (path) / --uri-decode (pointer, patch)

\* does the library accept / resolve / apply the expression under these options?
ExprFails(c, e, o) ==
  CASE c = "path" -> e \in {"syntax", "type", "name", "index", "unterminated", "bad-regex", "huge-literal"} \/ (e = "illtyped-only-when-checked" /\ ~o.flag)
    [] c = "pointer" -> e \in {"unresolvable-key", "unresolvable-index", "into-scalar", "no-leading-slash"}
    [] c = "patch" -> e \notin {"ok", "ok-root", "ok-empty", "ok-escape"}
DocFails(dd) == dd \in {"malformed", "malformed-scalar", "undecodable", "empty-file"}

Init == /\ cmd \in Cmds
        /\ opts \in OptSet(cmd)
        /\ expr \in ExprClasses(cmd)
        /\ doc \in DocClasses
        /\ (opts.stdin => doc \notin {"undecodable", "object-utf16", "object-utf8-bom"})          \* standard input is text in the harness
        \* a document that is a string (holding what looks like JSON) or 150 arrays deep: only with expressions that mean something on any document
        /\ (doc \in {"json-string", "deep-array"} => (cmd = "path" \/ expr \in {"ok-root", "ok-empty"}))
        /\ (expr = "ok-trailing-space" => opts.inline)   \* a pointer read from a file ends at the line end: final blanks are the caller's only when inline
        /\ phase = "args"
        /\ exit = 99 /\ stderrLines = 0 /\ traceback = FALSE /\ wrote = FALSE

Fail == /\ phase' = "done" /\ exit' = 1 /\ stderrLines' = 1 /\ traceback' = opts.debug /\ UNCHANGED <<cmd, opts, expr, doc, wrote>>
Advance(p) == phase' = p /\ UNCHANGED <<cmd, opts, expr, doc, exit, stderrLines, traceback, wrote>>

ReadExpr == phase = "args" /\ Advance("expr")
\* the expression is compiled / parsed first; a patch is built and applied in one library call after the document is read
Compile == phase = "expr" /\ IF cmd # "patch" /\ ExprFails(cmd, expr, opts) /\ expr \notin {"unresolvable-key", "unresolvable-index", "into-scalar"}
                             THEN Fail
                             ELSE IF cmd = "patch" /\ expr \in {"malformed-json", "not-an-array", "undecodable"} THEN Fail ELSE Advance("load")
Load == phase = "load" /\ IF DocFails(doc) THEN Fail ELSE Advance("eval")
Evaluate == phase = "eval" /\ IF ExprFails(cmd, expr, opts) THEN Fail ELSE Advance("write")
Write == /\ phase = "write"
         /\ phase' = "done" /\ exit' = 0 /\ wrote' = TRUE
         /\ UNCHANGED <<cmd, opts, expr, doc, stderrLines, traceback>>
Next == ReadExpr \/ Compile \/ Load \/ Evaluate \/ Write
Spec == Init /\ [][Next]_vars /\ WF_vars(Next)

Terminal == phase = "done"
\* ---- properties -----------------------------------------------------------------------
ExitCodes == Terminal => exit \in {0, 1}
Success == (Terminal /\ exit = 0) => (stderrLines = 0 /\ ~traceback /\ wrote /\ ~ExprFails(cmd, expr, opts) /\ ~DocFails(doc))
Failure == (Terminal /\ exit = 1) => (stderrLines = 1 /\ ~wrote /\ (traceback => opts.debug) /\ (ExprFails(cmd, expr, opts) \/ DocFails(doc)))
FaithfulFrontEnd == Terminal => ((exit = 0) <=> (~ExprFails(cmd, expr, opts) /\ ~DocFails(doc)))
NoCrash == phase \in {"args", "expr", "load", "eval", "write", "done"}
Terminates == <>Terminal

Export == Terminal => PrintT(ToJson([cmd |-> cmd, opts |-> opts, expr |-> expr, doc |-> doc, exit |-> exit, traceback_allowed |-> opts.debug]))
=============================================================================
