------------------------------ MODULE ParseBack ------------------------------
(***************************************************************************)
(* Relates the implementation-shaped syntax trees of Parser.tla to the     *)
(* RFC-shaped programs of JsonPath.tla: ToQuery maps a parser tree (flat   *)
(* selector lists with a descendant marker, infix / prefix nodes) to a     *)
(* program (segments, or / and / not / comparison / test nodes); NormQ     *)
(* removes from a program what the parser does not keep (redundant         *)
(* parentheses, the spelling of "!=", regular expressions as trees).       *)
(*   RoundTrip: for a program q rendered in any style and parsed,          *)
(*   ToQuery(tree) = NormQ(q), chains of && / || compared as right-nested. *)
(* Trace_ParseBack checks it on (q, tree) pairs where the tree is the real *)
(* parser's (already validated against Parser.tla).                        *)
(***************************************************************************)
EXTENDS Render

FnOfText(t) == IF \E f \in {"length", "count", "match", "search", "value", "nosuch"} : FnName(f) = t
               THEN CHOOSE f \in {"length", "count", "match", "search", "value", "nosuch"} : FnName(f) = t ELSE "other"
NormOp(op) == IF op = "<>" THEN "!=" ELSE op

RECURSIVE ToSegs(_), ToE(_), ToO(_), SelOf(_)
Val(n) == CASE n.k = "str" -> Str(n.s) [] n.k = "num" -> Num(n.h) [] n.k = "bool" -> Bool(n.b) [] n.k = "nil" -> Null
SelOf(s) == CASE s.k = "name" -> SName(s.s) [] s.k = "index" -> SIndex(s.i) [] s.k = "slice" -> SSlice(s.lo, s.hi, s.st)
              [] s.k = "wild" -> SWild [] s.k = "keys" -> SKeys [] s.k = "filter" -> SFilter(ToE(s.e))
SelsOf(x) == IF x.k = "list" THEN [j \in 1..Len(x.items) |-> SelOf(x.items[j])] ELSE <<SelOf(x)>>
ToSegs(sels) ==
  IF sels = <<>> THEN <<>>
  ELSE IF sels[1].k = "ddot"
       THEN (IF Len(sels) >= 2 /\ sels[2].k # "ddot" THEN <<Seg(TRUE, SelsOf(sels[2]))>> \o ToSegs(SubSeq(sels, 3, Len(sels)))
             ELSE <<Seg(TRUE, <<>>)>> \o ToSegs(Tail(sels)))       \* a descendant marker with nothing to apply (not a program of JsonPath.tla)
       ELSE <<Seg(FALSE, SelsOf(sels[1]))>> \o ToSegs(Tail(sels))
ToO(n) ==
  CASE n.k \in {"str", "num", "bool", "nil"} -> OLit(Val(n))
    [] n.k = "path" -> OQ(Q(n.root, ToSegs(n.sels)))
    [] n.k = "fn" -> OFn(FnOfText(n.f), [j \in 1..Len(n.args) |-> ToO(n.args[j])])
    [] n.k = "key" -> OKey
    [] n.k = "undef" -> OUndef
    [] n.k = "list" -> OList([j \in 1..Len(n.items) |-> Val(n.items[j])])
    [] n.k = "re" -> [k |-> "retext", s |-> n.s, ic |-> (\E j \in 1..Len(n.flags) : n.flags[j] = 105)]
    [] n.k \in {"infix", "prefix"} -> [k |-> "expr", e |-> ToE(n)]
ToE(n) ==
  CASE n.k = "infix" -> (CASE n.op = "&&" -> EAnd(ToE(n.l), ToE(n.r)) [] n.op = "||" -> EOr(ToE(n.l), ToE(n.r))
                           [] OTHER -> ECmp(NormOp(n.op), ToO(n.l), ToO(n.r)))
    [] n.k = "prefix" -> ENot(ToE(n.e))
    [] n.k = "path" -> ETest(Q(n.root, ToSegs(n.sels)))
    [] n.k = "fn" -> EFTest(FnOfText(n.f), [j \in 1..Len(n.args) |-> ToO(n.args[j])])
    [] OTHER -> [k |-> "otest", o |-> ToO(n)]
ToQuery(op) == Q(IF op.fake THEN "^" ELSE "$", ToSegs(op.sels))

RECURSIVE NormQ(_), NormE(_), NormO(_)
NormSel(s) == IF s.k = "filter" THEN SFilter(NormE(s.e)) ELSE s
NormQ(q) == Q(q.root, [i \in 1..Len(q.segs) |-> Seg(q.segs[i].desc, [j \in 1..Len(q.segs[i].sels) |-> NormSel(q.segs[i].sels[j])])])
NormO(x) ==
  CASE x.k = "q" -> OQ(NormQ(x.q))
    [] x.k = "fn" -> OFn(x.f, [j \in 1..Len(x.args) |-> NormO(x.args[j])])
    [] x.k = "re" -> IF x.lit THEN [k |-> "retext", s |-> PatternText(x.re), ic |-> x.ic] ELSE OLit(Str(PatternText(x.re)))
    [] x.k = "expr" -> (IF x.e.k = "paren" THEN NormO([k |-> "expr", e |-> x.e.e])
                        ELSE IF x.e.k = "test" THEN OQ(NormQ(x.e.q))                      \* a query argument written as a test
                        ELSE IF x.e.k = "ftest" THEN OFn(x.e.f, [j \in 1..Len(x.e.args) |-> NormO(x.e.args[j])])
                        ELSE [k |-> "expr", e |-> NormE(x.e)])
    [] OTHER -> x
NormE(e) ==
  CASE e.k = "or" -> EOr(NormE(e.l), NormE(e.r))
    [] e.k = "and" -> EAnd(NormE(e.l), NormE(e.r))
    [] e.k = "not" -> ENot(NormE(e.e))
    [] e.k = "paren" -> NormE(e.e)
    [] e.k = "test" -> ETest(NormQ(e.q))
    [] e.k = "ftest" -> EFTest(e.f, [j \in 1..Len(e.args) |-> NormO(e.args[j])])
    [] e.k = "cmp" -> ECmp(NormOp(e.op), NormO(e.l), NormO(e.r))
    [] OTHER -> e

\* && and || are associative, and the parser groups a chain of one of them to the right whatever grouping the program had
\* (A || B || C is written without parentheses for both groupings): chains are compared as right-nested
RECURSIVE Operands(_, _), AssocQ(_), AssocE(_), AssocO(_), Chain(_, _)
Operands(e, k) == IF e.k = k THEN Operands(e.l, k) \o Operands(e.r, k) ELSE <<e>>
Chain(xs, k) == IF Len(xs) = 1 THEN xs[1] ELSE [k |-> k, l |-> xs[1], r |-> Chain(Tail(xs), k)]
AssocSel(s) == IF s.k = "filter" THEN SFilter(AssocE(s.e)) ELSE s
AssocQ(q) == Q(q.root, [i \in 1..Len(q.segs) |-> Seg(q.segs[i].desc, [j \in 1..Len(q.segs[i].sels) |-> AssocSel(q.segs[i].sels[j])])])
AssocO(x) == CASE x.k = "q" -> OQ(AssocQ(x.q))
               [] x.k = "fn" -> OFn(x.f, [j \in 1..Len(x.args) |-> AssocO(x.args[j])])
               [] x.k = "expr" -> [k |-> "expr", e |-> AssocE(x.e)]
               [] OTHER -> x
AssocE(e) == CASE e.k \in {"or", "and"} -> LET xs == Operands(e, e.k) IN Chain([j \in 1..Len(xs) |-> AssocE(xs[j])], e.k)
               [] e.k = "not" -> ENot(AssocE(e.e))
               [] e.k = "test" -> ETest(AssocQ(e.q))
               [] e.k = "ftest" -> EFTest(e.f, [j \in 1..Len(e.args) |-> AssocO(e.args[j])])
               [] e.k = "cmp" -> ECmp(e.op, AssocO(e.l), AssocO(e.r))
               [] e.k = "otest" -> [k |-> "otest", o |-> AssocO(e.o)]
               [] OTHER -> e
Same(parsed, program) == AssocQ(parsed) = AssocQ(NormQ(program))

\* a parser tree (first operand and [op, operand] pairs) against a program and its compound rest
RoundTrip(tree, first, rest) ==
  /\ Same(ToQuery(tree.first), first)
  /\ Len(tree.rest) = Len(rest)
  /\ \A j \in 1..Len(rest) : tree.rest[j].op = rest[j].op /\ Same(ToQuery(tree.rest[j].q), rest[j].q)
=============================================================================
