------------------------------ MODULE Trace_Api ------------------------------
(***************************************************************************)
(* Trace validation for C06: every recorded session (one ndjson line:      *)
(* [id, events]) must be a behaviour of the session machine of Api.tla.    *)
(* Verdicts are total: a session that cannot be continued takes an         *)
(* explicit reject step naming the failing clause; the postcondition       *)
(* checks that every session got a verdict.                                *)
(***************************************************************************)
EXTENDS Api, Json, IOUtils, TLCExt

Recs == ndJsonDeserialize(IOEnv.TRACE_FILE)

VARIABLES i, l, state
vars == <<i, l, state>>

Init == i \in 1..Len(Recs) /\ l = 1 /\ state = "none"

Consume ==
  /\ state \notin {"reject", "accepted"}
  /\ l <= Len(Recs[i].events)
  /\ LET r == SessionStep(state, Recs[i].events[l]) IN
       /\ state' = r.state
       /\ IF r.state = "reject" THEN PrintT(ToJson([reject |-> Recs[i].id, at |-> l, why |-> r.why])) ELSE TRUE
  /\ l' = l + 1
  /\ UNCHANGED i
Finish ==
  /\ state \notin {"reject", "accepted"}
  /\ l > Len(Recs[i].events)
  /\ state' = "accepted"
  /\ UNCHANGED <<i, l>>
Next == Consume \/ Finish
Spec == Init /\ [][Next]_vars /\ WF_vars(Next)

\* every session reaches a verdict
Verdicts == <>(state \in {"reject", "accepted"})
\* the recorder's own discipline: no event after a failed construction was recorded
NoStuck == state \in {"none", "failed", "compile", "pointer", "relptr", "patch", "reject", "accepted"}
=============================================================================
