----------------------------- MODULE Trace_Parser -----------------------------
(***************************************************************************)
(* Trace validation of the real lexer + parser against Parser.tla: every   *)
(* recorded case (one ndjson line: id, the tokens the real lexer produced  *)
(* for a query text, and what the real parser made of them - a syntax tree *)
(* or an error class) must be what the specification's parser makes of the *)
(* same tokens.  Verdicts are total: a case that differs takes a reject    *)
(* step naming what differs.                                               *)
(***************************************************************************)
EXTENDS Parser, Json, IOUtils, TLCExt

Recs == ndJsonDeserialize(IOEnv.TRACE_FILE)

VARIABLES i, state
vars == <<i, state>>

Init == i \in 1..Len(Recs) /\ state = "none"

Why(rec, v) == IF v.ok # rec.ok THEN (IF v.ok THEN "specification-accepts-code-refuses" ELSE "specification-refuses-code-accepts")
               ELSE IF ~v.ok /\ v.err # rec.err THEN "other-error-class"
               ELSE IF v.ok /\ v.tree # rec.tree THEN "other-syntax-tree"
               \* where the recorder also carries the verdict of the RFC typing rules (Typing.tla, for programs of MC_Typing): the three agree
               ELSE IF rec.accept # "na" /\ v.ok # (rec.accept = "yes") THEN "parser-model-disagrees-with-the-typing-rules"
               ELSE ""
Judge ==
  /\ state = "none"
  /\ LET v == Verdict(Recs[i].toks)
         w == Why(Recs[i], v) IN
       /\ state' = IF w = "" THEN "accepted" ELSE "reject"
       /\ IF w # "" THEN PrintT(ToJson([reject |-> Recs[i].id, why |-> w, spec |-> v])) ELSE TRUE
  /\ UNCHANGED i
Next == Judge
Spec == Init /\ [][Next]_vars /\ WF_vars(Next)
Verdicts == <>(state \in {"reject", "accepted"})
=============================================================================
