----------------------------- MODULE Trace_Parser -----------------------------
(***************************************************************************)
(* Trace validation of the real lexer + parser against Parser.tla: every   *)
(* recorded case (one ndjson line: id, the tokens the real lexer produced  *)
(* for a query text, and what the real parser made of them - a syntax tree *)
(* or an error class) must be what the specification's parser makes of the *)
(* same tokens.  Verdicts are total: a case that differs takes a reject    *)
(* step naming what differs.                                               *)
(***************************************************************************)
EXTENDS Parser, Lexer, Json, IOUtils, TLCExt

Recs == ndJsonDeserialize(IOEnv.TRACE_FILE)

VARIABLES i, state
vars == <<i, state>>

Init == i \in 1..Len(Recs) /\ state = "none"

\* the default spellings of the eight identifier tokens
StdTok == [root |-> <<36>>, fake |-> <<94>>, self |-> <<64>>, key |-> <<35>>, union |-> <<124>>, inter |-> <<38>>, ctx |-> <<95>>, keys |-> <<126>>]
\* the real lexer's tokens (kind and raw text) are the tokens the rule-list model (Lexer.tla) cuts the text into
LexAgrees(rec) == LET ts == Tokens(rec.text, StdTok, "longest-first") IN
                  /\ Len(ts) = Len(rec.toks)
                  /\ \A j \in 1..Len(ts) : ts[j].k = rec.toks[j].k /\ ts[j].v = rec.toks[j].raw

Why(rec, v) == IF ~LexAgrees(rec) THEN "lexer-model-cuts-the-text-into-other-tokens"
               ELSE IF v.ok # rec.ok THEN (IF v.ok THEN "specification-accepts-code-refuses" ELSE "specification-refuses-code-accepts")
               ELSE IF ~v.ok /\ v.err # rec.err THEN "other-error-class"
               ELSE IF v.ok /\ v.tree # rec.tree THEN "other-syntax-tree"
               \* where the recorder also carries the verdict of the RFC typing rules (Typing.tla, for programs of MC_Typing): the three agree
               ELSE IF rec.accept # "na" /\ v.ok # (rec.accept = "yes") THEN "parser-model-disagrees-with-the-typing-rules"
               ELSE ""
Judge ==
  /\ state = "none"
  /\ LET v == Verdict(Recs[i].toks)
         w == Why(Recs[i], v) IN
       /\ state' = IF w = "" THEN "accepted" ELSE "reject"
       /\ IF w # "" THEN PrintT(ToJson([reject |-> Recs[i].id, why |-> w,
                                         spec |-> IF w = "lexer-model-cuts-the-text-into-other-tokens" THEN [tokens |-> Tokens(Recs[i].text, StdTok, "longest-first")] ELSE v])) ELSE TRUE
  /\ UNCHANGED i
Next == Judge
Spec == Init /\ [][Next]_vars /\ WF_vars(Next)
Verdicts == <>(state \in {"reject", "accepted"})
=============================================================================
