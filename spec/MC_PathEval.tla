----------------------------- MODULE MC_PathEval -----------------------------
(***************************************************************************)
(* C01 / C03 / C20: evaluation of a selector query as a state machine.     *)
(* State: the query, a program counter over its segments, and - for every  *)
(* document of the universe at once - the node list after the segments     *)
(* applied so far.  One action per segment (RFC 9535 2.5).                 *)
(***************************************************************************)
EXTENDS Render, PathDocs, Pointer, Json

CONSTANT Universe    \* which family of queries: "one" | "list" | "two" | "three" | "names"

VARIABLES q, pc, nodes
vars == <<q, pc, nodes>>

O(x) == <<x>>
SliceLo == {<<>>, <<-2>>, <<1>>}
SliceHi == {<<>>, <<-1>>, <<6>>}
SliceSt == {<<>>, <<-2>>, <<-1>>, <<0>>, <<1>>, <<2>>, <<3>>}
SlicesQuick == {SSlice(lo, hi, st) : lo \in SliceLo, hi \in SliceHi, st \in SliceSt}
Bnd == {<<>>, <<-7>>, <<-2>>, <<-1>>, <<0>>, <<1>>, <<2>>, <<6>>}
SlicesAll == {SSlice(lo, hi, st) : lo \in Bnd, hi \in Bnd, st \in SliceSt}

NamesQ == {n_a, n_b, n_e, n_1, n_ee, n_emo, n_sq, n_dq, n_abs, n_anb, n_and, n_sp, n_0}
NameSels == {SName(s) : s \in NamesQ}
IndexSels == {SIndex(i) : i \in {0, 1, -1, -2, 5}}
Sels == NameSels \cup IndexSels \cup SlicesQuick \cup {SWild}
SelsAll == NameSels \cup IndexSels \cup SlicesAll \cup {SWild}
\* a reduced pool for products
Pool == {SName(n_a), SName(n_b), SName(n_e), SName(n_ee), SIndex(0), SIndex(1), SIndex(-1), SWild,
         SSlice(<<1>>, <<>>, <<>>), SSlice(<<>>, <<>>, <<-1>>), SSlice(<<>>, <<>>, <<2>>), SSlice(<<-2>>, <<>>, <<>>)}
Pool6 == {SName(n_a), SIndex(0), SIndex(-1), SWild, SSlice(<<>>, <<2>>, <<>>), SName(n_b)}
SegsOf(P) == {Seg(d, <<s>>) : d \in BOOLEAN, s \in P}

Queries ==
  CASE Universe = "one" -> {Q("$", <<sg>>) : sg \in SegsOf(Sels)} \cup {Q("$", <<>>)}
    [] Universe = "slices" -> {Q("$", <<sg>>) : sg \in SegsOf(SlicesAll)}
    [] Universe = "list" -> {Q("$", <<Seg(d, <<a, b>>)>>) : d \in BOOLEAN, a \in Pool, b \in Pool}
                            \cup {Q("$", <<Seg(d, <<a, b, c>>)>>) : d \in BOOLEAN, a \in Pool6, b \in Pool6, c \in Pool6}
    [] Universe = "namelists" -> {Q("$", <<Seg(d, <<SName(a), SName(b)>>)>>) : d \in BOOLEAN, a \in {n_abs, n_sq, n_dq, n_a, n_anb, n_bs}, b \in {n_abs, n_sq, n_dq, n_a, n_anb, n_bs}}
    [] Universe = "two" -> {Q("$", <<s1, s2>>) : s1 \in SegsOf(Pool), s2 \in SegsOf(Pool)}
    [] Universe = "three" -> {Q("$", <<s1, s2, s3>>) : s1 \in SegsOf(Pool6), s2 \in SegsOf(Pool6), s3 \in SegsOf(Pool6)}
    [] Universe = "names" -> {Q("$", <<Seg(d, <<SName(SpecialNames[i])>>)>>) : d \in BOOLEAN, i \in 1..Len(SpecialNames)}
                             \cup {Q("$", <<Child(SName(n_b)), Child(SIndex(0)), Child(SName(n_ee)), Child(SWild)>>),
                                   Q("$", <<Descend(SWild)>>), Q("$", <<Descend(SWild), Descend(SWild)>>)}

\* surface styles (DESIGN.md 4.5): brackets/single quotes; brackets/double quotes with blanks;
\* dot shorthand; brackets with TAB / LF / CR blanks and \u escapes
Styles == << StdStyle,
             [StdStyle EXCEPT !.q = 34, !.sp = <<32>>],
             [StdStyle EXCEPT !.dot = TRUE],
             [StdStyle EXCEPT !.sp = <<9, 10, 13>>, !.uni = TRUE, !.q = 34],
             [StdStyle EXCEPT !.dot = TRUE, !.sp = <<32>>, !.uni = TRUE] >>

NDocs == Len(DocSeq)
Roots == [d \in 1..NDocs |-> <<Node(<<>>, DocSeq[d])>>]

Init == /\ q \in Queries
        /\ pc = 0
        /\ nodes = Roots

\* one segment applied to the node list of every document
Segment ==
  /\ pc < Len(q.segs)
  /\ nodes' = [d \in 1..NDocs |-> ApplySegment(q.segs[pc + 1], nodes[d], RootEnv(DocSeq[d], Obj(<<>>, <<>>)))]
  /\ pc' = pc + 1
  /\ UNCHANGED q
Next == Segment
Spec == Init /\ [][Next]_vars /\ WF_vars(Next)

Terminal == pc = Len(q.segs)

\* ---- properties of the design ------------------------------------------------
\* every node in the list is where its location says it is
LocOK == \A d \in 1..NDocs : \A i \in 1..Len(nodes[d]) : At(DocSeq[d], nodes[d][i].loc) = nodes[d][i].v
\* the pipeline equals the RFC denotation computed in one go, and the second formulation
RECURSIVE RunDirect(_, _, _, _)
RunDirect(segs, k, ns, env) == IF k > Len(segs) THEN ns ELSE RunDirect(segs, k + 1, SegDirect(segs[k], ns, env), env)
Denotation ==
  Terminal => \A d \in 1..NDocs :
     /\ nodes[d] = Eval(q, DocSeq[d])
     /\ nodes[d] = RunDirect(q.segs, 1, Roots[d], RootEnv(DocSeq[d], Obj(<<>>, <<>>)))
\* selectors applied to primitives select nothing: every selected node's parent is a container
WrongKindSelectsNothing ==
  \A d \in 1..NDocs : \A i \in 1..Len(nodes[d]) :
     nodes[d][i].loc # <<>> => IsContainer(At(DocSeq[d], Front(nodes[d][i].loc)))
Terminates == <>Terminal

\* ---- exports -------------------------------------------------------------------
\* printed once: the documents with, for every node, its location, normalized path (RFC 9535 2.7),
\* pointer (RFC 6901) and the documents RFC 6902 replace / remove at that node must produce
NewVal == Str(<<78, 69, 87>>)
ASSUME PrintT(ToJson([docs |-> [d \in 1..NDocs |->
          [doc |-> DocSeq[d],
           nodes |-> [i \in 1..Len(LocsOf(DocSeq[d])) |->
               LET l == LocsOf(DocSeq[d])[i] IN
               [loc |-> l, path |-> NormPath(l), ptr |-> PrintPtr(TokensOf(l)),
                replaced |-> SetAtLoc(DocSeq[d], l, NewVal),
                removed |-> IF l = <<>> THEN Null ELSE RemoveAtLoc(DocSeq[d], l)]]]]]))

Export == Terminal => PrintT(ToJson([q |-> q, texts |-> [s \in 1..Len(Styles) |-> Render(q, Styles[s])],
                                      res |-> [d \in 1..NDocs |-> [i \in 1..Len(nodes[d]) |-> nodes[d][i].loc]]]))
=============================================================================
