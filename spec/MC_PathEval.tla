----------------------------- MODULE MC_PathEval -----------------------------
(***************************************************************************)
(* C01 / C03 / C20: the evaluation machine (EvalMachine.tla) instantiated  *)
(* with the selector-query universes and the crafted documents.            *)
(***************************************************************************)
EXTENDS Render, PathDocs, Pointer, Json

CONSTANT Universe    \* which family of queries

VARIABLES q, pc, nodes

O(x) == <<x>>
SliceLo == {<<>>, <<-2>>, <<1>>}
SliceHi == {<<>>, <<-1>>, <<6>>}
SliceSt == {<<>>, <<-2>>, <<-1>>, <<0>>, <<1>>, <<2>>, <<3>>}
SlicesQuick == {SSlice(lo, hi, st) : lo \in SliceLo, hi \in SliceHi, st \in SliceSt}
Bnd == {<<>>, <<-7>>, <<-2>>, <<-1>>, <<0>>, <<1>>, <<2>>, <<6>>}
SlicesAll == {SSlice(lo, hi, st) : lo \in Bnd, hi \in Bnd, st \in SliceSt}

NamesQ == {n_a, n_b, n_e, n_1, n_ee, n_emo, n_sq, n_dq, n_abs, n_anb, n_and, n_sp, n_0}
NameSels == {SName(s) : s \in NamesQ}
IndexSels == {SIndex(i) : i \in {0, 1, -1, -2, 5}}
Sels == NameSels \cup IndexSels \cup SlicesQuick \cup {SWild}
SelsAll == NameSels \cup IndexSels \cup SlicesAll \cup {SWild}
\* a reduced pool for products
Pool == {SName(n_a), SName(n_b), SName(n_e), SName(n_ee), SIndex(0), SIndex(1), SIndex(-1), SWild,
         SSlice(<<1>>, <<>>, <<>>), SSlice(<<>>, <<>>, <<-1>>), SSlice(<<>>, <<>>, <<2>>), SSlice(<<-2>>, <<>>, <<>>)}
Pool6 == {SName(n_a), SIndex(0), SIndex(-1), SWild, SSlice(<<>>, <<2>>, <<>>), SName(n_b)}
SegsOf(P) == {Seg(d, <<s>>) : d \in BOOLEAN, s \in P}

QuerySet ==
  CASE Universe = "one" -> {Q("$", <<sg>>) : sg \in SegsOf(Sels)} \cup {Q("$", <<>>)}
    [] Universe = "slices" -> {Q("$", <<sg>>) : sg \in SegsOf(SlicesAll)}
    [] Universe = "list" -> {Q("$", <<Seg(d, <<a, b>>)>>) : d \in BOOLEAN, a \in Pool, b \in Pool}
                            \cup {Q("$", <<Seg(d, <<a, b, c>>)>>) : d \in BOOLEAN, a \in Pool6, b \in Pool6, c \in Pool6}
    [] Universe = "namelists" -> {Q("$", <<Seg(d, <<SName(a), SName(b)>>)>>) : d \in BOOLEAN, a \in {n_abs, n_sq, n_dq, n_a, n_anb, n_bs}, b \in {n_abs, n_sq, n_dq, n_a, n_anb, n_bs}}
    [] Universe = "two" -> {Q("$", <<s1, s2>>) : s1 \in SegsOf(Pool), s2 \in SegsOf(Pool)}
    [] Universe = "three" -> {Q("$", <<s1, s2, s3>>) : s1 \in SegsOf(Pool6), s2 \in SegsOf(Pool6), s3 \in SegsOf(Pool6)}
    [] Universe = "names" -> {Q("$", <<Seg(d, <<SName(SpecialNames[i])>>)>>) : d \in BOOLEAN, i \in 1..Len(SpecialNames)}
                             \cup {Q("$", <<Child(SName(n_b)), Child(SIndex(0)), Child(SName(n_ee)), Child(SWild)>>),
                                   Q("$", <<Descend(SWild)>>), Q("$", <<Descend(SWild), Descend(SWild)>>)}

\* surface styles (DESIGN.md 4.5): brackets/single quotes; brackets/double quotes with blanks;
\* dot shorthand; brackets with TAB / LF / CR blanks and \u escapes
StyleSeq == << StdStyle,
             [StdStyle EXCEPT !.q = 34, !.sp = <<32>>],
             [StdStyle EXCEPT !.dot = TRUE],
             [StdStyle EXCEPT !.sp = <<9, 10, 13>>, !.uni = TRUE, !.q = 34],
             [StdStyle EXCEPT !.dot = TRUE, !.sp = <<32>>, !.uni = TRUE],
             \* single quotes, every character of a name as an upper-case \uXXXX escape: legal, nothing canonical about it
             [StdStyle EXCEPT !.every = TRUE] >>


M == INSTANCE EvalMachine WITH Queries <- QuerySet, DocSeq <- DocSeq, Styles <- StyleSeq, Ctx <- Obj(<<>>, <<>>)

Spec == M!Spec
LocOK == M!LocOK
Denotation == M!Denotation
WrongKindSelectsNothing == M!WrongKindSelectsNothing
Terminates == M!Terminates
Export == M!Export
ASSUME PrintT(ToJson([docs |-> M!DocsWithTables]))
=============================================================================
