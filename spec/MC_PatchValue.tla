--------------------------- MODULE MC_PatchValue ---------------------------
(***************************************************************************)
(* C15: a patch is a value.  A behaviour builds a patch by one of three    *)
(* routes (document form, builder chain, the patch's own list of dicts)    *)
(* and then applies it repeatedly and prints it, in any order.  In the     *)
(* specification the patch never changes ([][patch' = patch]_vars), every  *)
(* application of it to equal documents gives equal results, and printing  *)
(* gives back the operations it was built from.                            *)
(***************************************************************************)
EXTENDS Patch, Json

CONSTANTS MaxPatchLen, MaxActs

VARIABLES patch, route, built, hist
vars == <<patch, route, built, hist>>

A == <<97>>  X == <<120>>  Y == <<121>>  Z == <<122>>  W == <<119>>  O == <<111>>  R == <<97, 114, 114>>  N0 == <<48>>  N9 == <<57>>  N1 == <<49>>

VObj == Obj(<<A>>, <<Arr(<<IntV(1)>>)>>)
VArr == Arr(<<Arr(<<>>), IntV(0)>>)

OpPool == {
  MkOp("add", <<X>>, <<>>, VObj),            MkOp("add", <<X, A, Dash>>, <<>>, IntV(2)),
  MkOp("add", <<X, A, N0>>, <<>>, Arr(<<>>)), MkOp("replace", <<X>>, <<>>, VArr),
  MkOp("add", <<X, N0, Dash>>, <<>>, Bool(TRUE)),
  MkOp("addne", <<X>>, <<>>, IntV(5)),       MkOp("addne", <<Y>>, <<>>, VObj),
  MkOp("addne", <<R, N1>>, <<>>, IntV(6)),
  MkOp("addap", <<R, N9>>, <<>>, VArr),      MkOp("addap", <<R, N0>>, <<>>, IntV(7)),
  MkOp("addap", <<Y>>, <<>>, IntV(8)),
  MkOp("remove", <<X>>, <<>>, Null),         MkOp("copy", <<Z>>, <<X>>, Null),
  MkOp("add", <<Z, A, Dash>>, <<>>, IntV(3)), MkOp("move", <<W>>, <<X>>, Null),
  MkOp("test", <<X>>, <<>>, VObj),           MkOp("add", <<R, Dash>>, <<>>, VObj),
  MkOp("add", <<R, N0, A, Dash>>, <<>>, IntV(4)),
  \* member names that look like integers
  MkOp("addne", <<O, N1>>, <<>>, IntV(5)),   MkOp("addne", <<O, N9>>, <<>>, VArr),
  MkOp("add", <<O, N1>>, <<>>, VObj),        MkOp("add", <<O, N1, A, Dash>>, <<>>, IntV(6)),
  MkOp("replace", <<O, N0>>, <<>>, IntV(7)), MkOp("remove", <<O, N1>>, <<>>, Null),
  \* an index equal to the array length, a move into the source's own child, a member whose name starts with '#'
  MkOp("add", <<R, <<50>>>>, <<>>, IntV(9)), MkOp("move", <<R, N0, N0>>, <<R, N0>>, Null), MkOp("copy", <<R, <<49>>>>, <<R, N0>>, Null),
  MkOp("addne", <<O, <<35, 49>>>>, <<>>, IntV(8)), MkOp("add", <<X, <<120, 32, 121>>>>, <<>>, IntV(5)),
  \* member names made of the pointer escape characters: "~1" (printed "/~01") and "/" (printed "/~1")
  MkOp("add", <<<<126, 49>>>>, <<>>, IntV(9)), MkOp("replace", <<<<126, 49>>>>, <<>>, VArr), MkOp("add", <<<<47>>>>, <<>>, IntV(8)),
  MkOp("copy", <<<<126, 48, 49>>>>, <<<<126, 49>>>>, Null),
  \* null is a value like any other (not "no value given")
  \* the root itself produced by an operation (a later operation then works inside what the first one put there)
  MkOp("add", <<>>, <<>>, VObj), MkOp("replace", <<>>, <<>>, Obj(<<X>>, <<Arr(<<>>)>>)),
  \* a member name that reads as a percent-encoded character (it is not one unless the caller asks for URI decoding)
  MkOp("add", <<<<37, 52, 49>>>>, <<>>, IntV(4)), MkOp("add", <<X, <<37, 50, 53>>>>, <<>>, IntV(5)),
  MkOp("add", <<X>>, <<>>, Null), MkOp("test", <<X>>, <<>>, Null), MkOp("replace", <<R, N0>>, <<>>, Null), MkOp("addne", <<W>>, <<>>, Null),
  \* "-0" is not a canonical integer: a member name in an object, nothing in an array
  MkOp("add", <<O, <<45, 48>>>>, <<>>, IntV(3)), MkOp("add", <<R, <<45, 48>>>>, <<>>, IntV(3)),
  \* a member name that ends in a blank
  MkOp("add", <<X, <<107, 109, 32>>>>, <<>>, IntV(6)) }

Docs == { Obj(<<R>>, <<Arr(<<IntV(1), IntV(2)>>)>>),
          Obj(<<X, R>>, <<Obj(<<A>>, <<Arr(<<>>)>>), Arr(<<Obj(<<A>>, <<Arr(<<>>)>>)>>)>>),
          Obj(<<X, Y, R>>, <<Arr(<<Arr(<<IntV(9)>>)>>), IntV(0), Arr(<<>>)>>),
          Obj(<<O, R>>, <<Obj(<<N1, N0>>, <<IntV(1), Arr(<<>>)>>), Arr(<<IntV(0)>>)>>),
          Obj(<<R>>, <<Arr(<<Arr(<<IntV(1)>>), Arr(<<IntV(2)>>)>>)>>) }
Routes == {"document", "builder", "asdicts"}

\* what printing the patch must give: the operations it was built from
Dicts(p) == [i \in 1..Len(p) |-> [op |-> p[i].op, path |-> PrintPtr(p[i].path), from |-> PrintPtr(p[i].from), value |-> p[i].value]]

\* the part of the patch that has been built so far (the builder route adds one
\* operation per AddOp step; the other routes construct the whole patch at once)
Cur == SubSeq(patch, 1, built)

Init == /\ patch \in {s \in SeqsUpTo(OpPool, MaxPatchLen) : s # <<>>}
        /\ route \in Routes
        /\ built = IF route = "builder" THEN 0 ELSE Len(patch)
        /\ hist = <<>>

\* random walks: TLC computes initial states once, so the random patch is chosen by the first step
\* a random element, drawn anew at every evaluation: the set mentions the state because TLC evaluates an expression
\* without variables once and for all (a walk would repeat one choice for ever)
Pick(S) == RandomElement(IF Len(hist) >= 0 THEN S ELSE {})
InitSim == patch = <<>> /\ route = "document" /\ built = 0 /\ hist = <<>>
ChooseSim == /\ patch = <<>>
             /\ \E n \in {Pick(1..MaxPatchLen)}, r \in {Pick(Routes)} :
                  /\ patch' = [i \in 1..n |-> Pick(OpPool)]
                  /\ route' = r
                  /\ built' = IF r = "builder" THEN 0 ELSE n
             /\ UNCHANGED hist

AddOp == /\ Len(hist) < MaxActs
         /\ built < Len(patch)
         /\ built' = built + 1
         /\ hist' = Append(hist, [act |-> "build", n |-> built + 1, doc |-> Null, result |-> Null])
         /\ UNCHANGED <<patch, route>>
Apply(d) == /\ Len(hist) < MaxActs
            /\ hist' = Append(hist, [act |-> "apply", n |-> built, doc |-> d, result |-> ApplyAll(d, Cur)])
            /\ UNCHANGED <<patch, route, built>>
AsDicts == /\ Len(hist) < MaxActs
           /\ hist' = Append(hist, [act |-> "asdicts", n |-> built, doc |-> Null, result |-> Null])
           /\ UNCHANGED <<patch, route, built>>
Next == (\E d \in Docs : Apply(d)) \/ AsDicts \/ AddOp
NextSim == IF patch = <<>> THEN ChooseSim ELSE
           \E c \in {Pick(1..5)} :
             IF c = 1 THEN AsDicts
             ELSE IF c = 2 /\ built < Len(patch) THEN AddOp
             ELSE \E d \in {Pick(Docs)} : Apply(d)
Spec == Init /\ [][Next]_vars

\* ---- properties -------------------------------------------------------------
\* only a builder call changes the patch: applying or printing it never does
PatchNeverChanges == [][(patch # <<>> /\ (built' # built \/ patch' # patch)) => (patch' = patch /\ hist'[Len(hist')].act = "build")]_vars
\* equal documents, equal results - whatever happened in between
Repeatable == \A i, j \in 1..Len(hist) :
                (hist[i].act = "apply" /\ hist[j].act = "apply" /\ hist[i].doc = hist[j].doc /\ hist[i].n = hist[j].n) => hist[i].result = hist[j].result
\* addne / addap differ from add only as documented
AddVariants ==
  \A d \in Docs : \A op \in {o \in OpPool : o.op \in {"addne", "addap"}} :
    LET asAdd == OpAdd(d, op.path, op.value)
        self == ApplyOp(d, op)
        parent == Resolve(d, Front(op.path)) IN
    IF op.op = "addne"
    THEN IF ~IsErr(parent) /\ parent.t = "obj" /\ KeyIndex(parent, Last(op.path)) # 0 THEN self = d ELSE self = asAdd
    ELSE IF ~IsErr(parent) /\ parent.t = "arr" /\ IsCanonicalIndex(Last(op.path)) /\ ToNat(Last(op.path)) > Len(parent.xs)
         THEN self = OpAdd(d, Front(op.path) \o <<Dash>>, op.value) ELSE self = asAdd

Export == (Len(hist) = MaxActs) => PrintT(ToJson([route |-> route, dicts |-> Dicts(patch), hist |-> hist]))
=============================================================================
