--------------------------- MODULE MC_PatchValue ---------------------------
(***************************************************************************)
(* C15: a patch is a value.  A behaviour builds a patch by one of three    *)
(* routes (document form, builder chain, the patch's own list of dicts)    *)
(* and then applies it repeatedly and prints it, in any order.  In the     *)
(* specification the patch never changes ([][patch' = patch]_vars), every  *)
(* application of it to equal documents gives equal results, and printing  *)
(* gives back the operations it was built from.                            *)
(***************************************************************************)
EXTENDS Patch, Json

CONSTANTS MaxPatchLen, MaxActs

VARIABLES patch, route, hist
vars == <<patch, route, hist>>

A == <<97>>  X == <<120>>  Y == <<121>>  Z == <<122>>  W == <<119>>  R == <<97, 114, 114>>  N0 == <<48>>  N9 == <<57>>  N1 == <<49>>

VObj == Obj(<<A>>, <<Arr(<<IntV(1)>>)>>)
VArr == Arr(<<Arr(<<>>), IntV(0)>>)

OpPool == {
  MkOp("add", <<X>>, <<>>, VObj),            MkOp("add", <<X, A, Dash>>, <<>>, IntV(2)),
  MkOp("add", <<X, A, N0>>, <<>>, Arr(<<>>)), MkOp("replace", <<X>>, <<>>, VArr),
  MkOp("add", <<X, N0, Dash>>, <<>>, Bool(TRUE)),
  MkOp("addne", <<X>>, <<>>, IntV(5)),       MkOp("addne", <<Y>>, <<>>, VObj),
  MkOp("addne", <<R, N1>>, <<>>, IntV(6)),
  MkOp("addap", <<R, N9>>, <<>>, VArr),      MkOp("addap", <<R, N0>>, <<>>, IntV(7)),
  MkOp("addap", <<Y>>, <<>>, IntV(8)),
  MkOp("remove", <<X>>, <<>>, Null),         MkOp("copy", <<Z>>, <<X>>, Null),
  MkOp("add", <<Z, A, Dash>>, <<>>, IntV(3)), MkOp("move", <<W>>, <<X>>, Null),
  MkOp("test", <<X>>, <<>>, VObj),           MkOp("add", <<R, Dash>>, <<>>, VObj),
  MkOp("add", <<R, N0, A, Dash>>, <<>>, IntV(4)) }

Docs == { Obj(<<R>>, <<Arr(<<IntV(1), IntV(2)>>)>>),
          Obj(<<X, R>>, <<Obj(<<A>>, <<Arr(<<>>)>>), Arr(<<Obj(<<A>>, <<Arr(<<>>)>>)>>)>>),
          Obj(<<X, Y, R>>, <<Arr(<<Arr(<<IntV(9)>>)>>), IntV(0), Arr(<<>>)>>) }
Routes == {"document", "builder", "asdicts"}

\* what printing the patch must give: the operations it was built from
Dicts(p) == [i \in 1..Len(p) |-> [op |-> p[i].op, path |-> PrintPtr(p[i].path), from |-> PrintPtr(p[i].from), value |-> p[i].value]]

Init == /\ patch \in {s \in SeqsUpTo(OpPool, MaxPatchLen) : s # <<>>}
        /\ route \in Routes
        /\ hist = <<>>

Apply(d) == /\ Len(hist) < MaxActs
            /\ hist' = Append(hist, [act |-> "apply", doc |-> d, result |-> ApplyAll(d, patch)])
            /\ UNCHANGED <<patch, route>>
AsDicts == /\ Len(hist) < MaxActs
           /\ hist' = Append(hist, [act |-> "asdicts", doc |-> Null, result |-> Null])
           /\ UNCHANGED <<patch, route>>
Next == (\E d \in Docs : Apply(d)) \/ AsDicts
NextSim == \E c \in {RandomElement(1..4)} : IF c = 1 THEN AsDicts ELSE \E d \in {RandomElement(Docs)} : Apply(d)
Spec == Init /\ [][Next]_vars

\* ---- properties -------------------------------------------------------------
PatchNeverChanges == [][patch' = patch]_vars
\* equal documents, equal results - whatever happened in between
Repeatable == \A i, j \in 1..Len(hist) :
                (hist[i].act = "apply" /\ hist[j].act = "apply" /\ hist[i].doc = hist[j].doc) => hist[i].result = hist[j].result
\* addne / addap differ from add only as documented
AddVariants ==
  \A d \in Docs : \A op \in {o \in OpPool : o.op \in {"addne", "addap"}} :
    LET asAdd == OpAdd(d, op.path, op.value)
        self == ApplyOp(d, op)
        parent == Resolve(d, Front(op.path)) IN
    IF op.op = "addne"
    THEN IF ~IsErr(parent) /\ parent.t = "obj" /\ KeyIndex(parent, Last(op.path)) # 0 THEN self = d ELSE self = asAdd
    ELSE IF ~IsErr(parent) /\ parent.t = "arr" /\ IsCanonicalIndex(Last(op.path)) /\ ToNat(Last(op.path)) > Len(parent.xs)
         THEN self = OpAdd(d, Front(op.path) \o <<Dash>>, op.value) ELSE self = asAdd

Export == (Len(hist) = MaxActs) => PrintT(ToJson([route |-> route, dicts |-> Dicts(patch), hist |-> hist]))
=============================================================================
