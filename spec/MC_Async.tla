------------------------------- MODULE MC_Async -------------------------------
(***************************************************************************)
(* C08 / C09: concurrent evaluations on one event loop.  Each task         *)
(* evaluates one (query, document) pair whose result the specification     *)
(* knows (a list of Need[t] matches).  A step resumes one task; the task   *)
(* either makes internal progress (an await that suspends inside the       *)
(* evaluation) or emits its next match.  Tasks share nothing, so whatever  *)
(* the interleaving, what a task has emitted is a prefix of its own        *)
(* result and every task that is run to completion emits exactly its       *)
(* result.  TLC enumerates the schedules (sequences of task ids); the      *)
(* harness resumes real coroutines in exactly that order.                  *)
(***************************************************************************)
EXTENDS Naturals, Sequences, FiniteSets, TLC, Json

CONSTANTS NTasks,    \* number of concurrent evaluations
          MaxLen,    \* schedule length explored exhaustively
          N1, N2, N3 \* number of matches task 1, 2, 3 must emit (abstract result lengths)

VARIABLES emitted, sched
vars == <<emitted, sched>>

Tasks == 1..NTasks
Need == <<N1, N2, N3>>
Init == emitted = [t \in Tasks |-> 0] /\ sched = <<>>

Internal(t) == /\ Len(sched) < MaxLen
               /\ sched' = Append(sched, t)
               /\ UNCHANGED emitted
Emit(t) == /\ Len(sched) < MaxLen
           /\ emitted[t] < Need[t]
           /\ emitted' = [emitted EXCEPT ![t] = @ + 1]
           /\ sched' = Append(sched, t)
Next == \E t \in Tasks : Internal(t) \/ Emit(t)
\* a random element, drawn anew at every evaluation: the set mentions the state because TLC evaluates an expression
\* without variables once and for all (a walk would repeat one choice for ever)
Pick(S) == RandomElement(IF Len(sched) >= 0 THEN S ELSE {})
NextSim == \E t \in {Pick(Tasks)} : \E c \in {Pick(1..2)} : IF c = 1 /\ emitted[t] < Need[t] THEN Emit(t) ELSE Internal(t)
Spec == Init /\ [][Next]_vars

\* what a task has emitted is a prefix of its own result, whatever the others did
PrefixInv == \A t \in Tasks : emitted[t] <= Need[t]
\* a step of one task never changes what another has emitted
Independence == [][\A t \in Tasks : (sched' # sched /\ sched'[Len(sched')] # t) => emitted'[t] = emitted[t]]_vars
\* emitting is monotone
Monotone == [][\A t \in Tasks : emitted'[t] >= emitted[t]]_vars

\* the view hides the emission counts when exporting: one record per schedule
Export == Len(sched) = MaxLen => PrintT(ToJson([sched |-> sched]))
=============================================================================
