---------------------------- MODULE RelPointer ----------------------------
(***************************************************************************)
(* Relative JSON Pointer (draft-hha / draft-bhutton-relative-json-pointer) *)
(* on pointer values.  A relative pointer is                               *)
(*   [steps, off, key, suffix]: non-negative steps, a signed non-zero      *)
(*   index offset (0 = none), then either the key marker "#" or a pointer. *)
(***************************************************************************)
EXTENDS Pointer

Rel(steps, off, key, suffix) == [steps |-> steps, off |-> off, key |-> key, suffix |-> suffix]

Abs(n) == IF n < 0 THEN -n ELSE n
PrintRel(r) == Digits(r.steps)
               \o (IF r.off = 0 THEN <<>> ELSE <<IF r.off > 0 THEN 43 ELSE 45>> \o Digits(Abs(r.off)))
               \o (IF r.key THEN <<35>> ELSE PrintPtr(r.suffix))

RelErr == [t |-> "error", kind |-> "relptr"]

\* the three phases of an application, also used one per step by MC_RelPointer
Up(base, steps) == IF steps > Len(base) THEN RelErr ELSE [t |-> "ptr", toks |-> SubSeq(base, 1, Len(base) - steps)]
Offset(p, off) ==
  IF off = 0 THEN [t |-> "ptr", toks |-> p]
  ELSE LET idx == ToNat(Last(p)) + off IN
       IF idx < 0 THEN RelErr ELSE [t |-> "ptr", toks |-> Front(p) \o <<Decimal(idx)>>]
Finish(p, r) ==
  IF r.key THEN (IF p = <<>> THEN RelErr ELSE [t |-> "ptr", toks |-> Front(p) \o <<(<<35>> \o Last(p))>>])
  ELSE [t |-> "ptr", toks |-> p \o r.suffix]

\* an offset is only meaningful on a final array index (canonical decimal token)
OffsetApplicable(base, r) ==
  r.off = 0 \/ (r.steps < Len(base) /\ IsCanonicalIndex(base[Len(base) - r.steps]))

ApplyRel(base, r) ==
  LET u == Up(base, r.steps) IN
  IF u.t = "error" THEN u
  ELSE LET o == Offset(u.toks, r.off) IN
       IF o.t = "error" THEN o ELSE Finish(o.toks, r)
=============================================================================
