#!/bin/sh
# usage: tools/keep_mutant.sh <worktree> <i> <PROP> <name>
# Confirms a sub-agent's change in its scratch worktree (applies; pinned suite still 719 passed; demo fails
# with the change and passes without) and stores it under /verif/seeded/<name>/.
wt="$1"; i="$2"; prop="$3"; name="$4"
cd "$wt" || exit 2
git checkout -q -- . ; git apply "out/mutant$i.diff" || { echo "$name: does not apply"; exit 1; }
suite=$(env -u PYJSONPATH_VERIF /venv/bin/python -m pytest -q -p no:cacheprovider --continue-on-collection-errors 2>&1 | tail -1)
PYTHONPATH="$wt" /venv/bin/python "out/demo$i.py" >/dev/null 2>&1; with=$?
git checkout -q -- .
PYTHONPATH="$wt" /venv/bin/python "out/demo$i.py" >/dev/null 2>&1; without=$?
case "$suite" in *"719 passed"*) ok=1;; *) ok=0;; esac
echo "$name: suite='$suite' demo_with_change=$with demo_without=$without"
if [ "$ok" = 1 ] && [ "$with" != 0 ] && [ "$without" = 0 ]; then
  d="/verif/seeded/$name"; mkdir -p "$d"
  cp "out/mutant$i.diff" "$d/patch.diff"; cp "out/demo$i.py" "$d/demo.py"
  /venv/bin/python - "$d" "$prop" "out/note$i.txt" "$suite" "$with" <<'PY'
import json,sys
d,prop,note,suite,with_=sys.argv[1:]
json.dump({"property":prop,"needs_to_manifest":open(note).read().strip(),
  "confirmed":{"applies_to":"/repo HEAD at the time of seeding (scratch worktree)","pinned_suite_with_change":suite,
               "demo_exit_with_change":int(with_),"demo_exit_without_change":0,
               "commands":["git apply patch.diff","/venv/bin/python -m pytest -q -p no:cacheprovider --continue-on-collection-errors","PYTHONPATH=<worktree> /venv/bin/python demo.py"]},
  "detected_by":None},open(d+"/meta.json","w"),indent=1)
PY
else echo "$name: NOT KEPT"; fi
