#!/bin/sh
# usage: tools/try_mutant.sh <diff> <property id> [more ids...]
# Applies a seeded change to a scratch git worktree of /repo (never to /repo itself), runs the quick checks
# against it with VERIF_REPO and a scratch output directory, and removes the worktree.
diff=$(readlink -f "$1"); shift
wt=$(mktemp -d /tmp/trywt-XXXXXX); out=$(mktemp -d /tmp/tryout-XXXXXX)
git -C /repo worktree add -q --detach "$wt/r" HEAD || exit 2
if ! git -C "$wt/r" apply "$diff" 2>/dev/null && ! git -C "$wt/r" apply --3way "$diff" >/dev/null 2>&1; then
  echo "does not apply"; git -C /repo worktree remove --force "$wt/r"; rm -rf "$wt" "$out"; exit 2
fi
for id in "$@"; do
  o=$(cd /verif && VERIF_REPO="$wt/r" VERIF_OUT_DIR="$out" ./check "$id" --tier quick 2>&1); rc=$?
  nv=$(printf '%s\n' "$o" | grep -c '^VIOLATION')
  echo "$id rc=$rc violations=$nv  $(printf '%s\n' "$o" | grep '^#  ' | head -3 | tr '\n' ';')"
done
git -C /repo worktree remove --force "$wt/r"; git -C /repo worktree prune; rm -rf "$wt" "$out"
