#!/bin/sh
# usage: tools/try_mutant.sh <diff> <property id> [more ids...]  - apply a seeded change to /repo, run quick checks, undo
diff="$1"; shift
cd /repo || exit 2
if ! git diff --quiet; then echo "/repo has uncommitted changes"; exit 2; fi
git apply "$diff" || { echo "does not apply"; exit 2; }
for id in "$@"; do
  out=$(cd /verif && ./check "$id" --tier quick 2>&1); rc=$?
  nv=$(printf '%s\n' "$out" | grep -c '^VIOLATION')
  echo "$id rc=$rc violations=$nv  $(printf '%s\n' "$out" | grep '^#  ' | head -3 | tr '\n' ';')"
done
git -C /repo checkout -- .
