"""Regenerate the 'fixed' list of known_findings.json from /repo's fix: commits.
tools/fix_props.json maps a distinctive fragment of each commit subject to the properties it repairs."""
import json, subprocess, sys
m = json.load(open('/verif/tools/fix_props.json'))
log = subprocess.run(['git', '-C', '/repo', 'log', '--reverse', '--format=%h\t%s', '7bbff9b..HEAD'], capture_output=True, text=True).stdout.strip().splitlines()
kf = json.load(open('/verif/known_findings.json'))
fixed = []
for l in log:
    h, subj = l.split('\t')
    if not subj.startswith('fix:'):
        continue
    ps = [v for k, v in m.items() if k in subj]
    if not ps:
        sys.exit(f"no property mapping for: {subj}")
    for pid in ps[0].split():
        fixed.append(f"fixed: property={pid} {h} {subj[5:]}")
kf['fixed'] = fixed
json.dump(kf, open('/verif/known_findings.json', 'w'), indent=1)
print(len(fixed), 'fixed entries')
