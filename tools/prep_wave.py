#!/venv/bin/python
"""usage: tools/prep_wave.py <wave-dir> [ids...]
Creates one scratch git worktree of /repo per property under <wave-dir>/<id>/ (outside /repo and /verif), with an
empty out/ directory and PROPERTY.md holding only the property's own text and one-line summaries of the seeded
changes already kept for it (so that a sub-agent does not repeat them).  Nothing from /verif's machinery is copied."""
import json, os, subprocess, sys, glob
wave = sys.argv[1]; ids = sys.argv[2:]
props = {json.loads(l)["id"]: json.loads(l) for l in open("/verif/properties.jsonl")}
os.makedirs(wave, exist_ok=True)
for pid in (ids or sorted(props)):
    p = props[pid]; wt = os.path.join(wave, pid)
    if not os.path.isdir(wt):
        subprocess.check_call(["git", "-C", "/repo", "worktree", "add", "-q", "--detach", wt, "HEAD"])
    os.makedirs(os.path.join(wt, "out"), exist_ok=True)
    prev = []
    for m in sorted(glob.glob(f"/verif/seeded/{pid}-*/meta.json")):
        n = json.load(open(m))["needs_to_manifest"].replace("\n", " ")
        prev.append("- " + n[:260])
    with open(os.path.join(wt, "out", "PROPERTY.md"), "w") as f:
        f.write(f"# {pid}: {p['title']}\n\n## Statement\n{p['statement']}\n\n## Quantifier\n{p['quantifier']['text']}\n\n")
        f.write("## Anchors\n" + json.dumps(p.get("anchors", {}), indent=1) + "\n\n")
        f.write("## Changes already made by others (do NOT repeat these or close variants of them)\n" + "\n".join(prev) + "\n")
    print(pid, wt, len(prev))
