#!/bin/sh
# Offline setup: nothing is fetched or compiled; verify the tools the checks need are present.
set -e
java -version >/dev/null 2>&1
test -f /opt/veriftools/tla/tla2tools.jar
/venv/bin/python -c "import sys; sys.path.insert(0, '/repo'); import jsonpath"
mkdir -p /verif/evidence /verif/replay
echo "setup ok"
